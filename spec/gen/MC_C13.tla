------------------------------ MODULE MC_C13 ------------------------------
(* C13 generators (bounded-exhaustive, BFS).  One case per distinct         *)
(* expression tree: the expression string (Jmespath!Show) and the result    *)
(* predicted by Jmespath!Ev for every document of the mode's document set.  *)
(*                                                                          *)
(*  Mode "docs"  the document table (one record per document).              *)
(*  Mode "wrap"  expression trees grown from {@, a, b} by MaxDepth layers   *)
(*               of wrapping with every node kind: postfixes (appended the  *)
(*               way text is appended, so they land in the right-hand side  *)
(*               of an open projection), parentheses, pipes, || && !,       *)
(*               comparators, multi-selects, function calls (the tree as    *)
(*               argument or as expression-type), and placement as the      *)
(*               right-hand side / condition of a projection.  W1..W3       *)
(*               (core < mid < full, per layer) selects how many siblings   *)
(*               per kind.                                                  *)
(*  Mode "fn"    every built-in (and an unknown name) applied to every      *)
(*               argument tuple over a typed argument alphabet: 0..2        *)
(*               arguments (3 for a smaller alphabet) - well-typed,         *)
(*               ill-typed, wrong arity, unknown function; then one layer   *)
(*               of core wrapping when MaxDepth = 2.                        *)
(*  Mode "slice" every slice [a:b:c], a,b,c in {absent, -SlRange..SlRange}.     *)
(*  Mode "cmp"   comparators, && || ! over all pairs of a value alphabet.   *)
(*  Mode "stable" sort_by / sort / max_by / min_by / reverse over arrays of  *)
(*               17..40 elements with 2-3 distinct sort keys and a unique   *)
(*               id (sort_by must be stable: elements with equal keys keep  *)
(*               their order; library sorts only lose stability above 16    *)
(*               elements), and sort over long arrays with duplicates.      *)
(*  Mode "ident" identifiers / hash keys / literals / raw strings over keys *)
(*               that need quoting, escaping, or are non-ASCII.             *)
(*                                                                          *)
(* The same runs check the specification's algebraic identities as          *)
(* invariants (Identities).                                                 *)
(*                                                                          *)
(* Every prediction is the specification's (Ev with xf = {}).  Field "dev"  *)
(* of a case lists, per document, the known-deviation classes of the        *)
(* implementation (KnownDeviations; notes/C13.md) that the (expression,     *)
(* document) falls into - classification only, used by the driver to match  *)
(* a mismatch against /verif/known_findings.jsonl.                          *)
EXTENDS Jmespath, Json
CONSTANTS Mode, MaxDepth, W1, W2, W3, SlRange, EmitAst,
          KnownDeviations    \* names of the suspected defects of the implementation (notes/C13.md) that cases are
                             \* classified by (field "dev" of a case); classification never changes a prediction
VARIABLES e, depth

A == <<97>>  B == <<98>>
Fa == <<"fld", A>>  Fb == <<"fld", B>>
L(v) == <<"lit", v>>
I(n) == L(JInt(n))
Raw(s) == <<"raw", s>>
Fn(n, args) == <<"fn", n, args>>
Ref(x) == <<"ref", x>>
Cmp(op, l, r) == <<"cmp", op, l, r>>
Not(x) == <<"not", x>>
Par(x) == <<"par", x>>
O1(k, v) == JObj(k :> v)
O2(k1, v1, k2, v2) == JObj((k1 :> v1) @@ (k2 :> v2))
S(cs) == JStr(cs)
Ar(s) == JArr(s)
Neg(n) == 0 - n
Ab == <<>>
N(n) == <<n>>

-----------------------------------------------------------------------------
(* Documents: empty containers, nulls, mixed-type arrays, nested arrays for *)
(* flatten, objects for the hash wildcard, sortable arrays with ties,       *)
(* non-ASCII and quoted keys.                                                *)
Sx == <<120>>  Sy == <<121>>  Sz == <<122>>
D1 == O2(A, Ar(<<O2(A, JInt(1), B, Ar(<<JInt(1), JInt(2)>>)), O2(A, JInt(2), B, EmptyArr), O1(B, Ar(<<JInt(3)>>)),
                 JNull, JInt(0), Ar(<<JInt(4), Ar(<<JInt(5)>>)>>)>>),
         B, O2(A, S(Sx), B, Ar(<<JInt(0), JInt(1)>>)))
D2 == Ar(<<Ar(<<JInt(1), Ar(<<JInt(2)>>)>>), EmptyArr, JNull, O1(A, Ar(<<JInt(3)>>)), S(<<115>>), Ar(<<Ar(<<JInt(4)>>)>>)>>)
D3 == O2(A, O2(A, O2(A, JInt(1), B, JInt(2)), B, Ar(<<JBool(TRUE), JBool(FALSE), JNull>>)), B, S(<<97, 98>>))
D4 == O2(A, Ar(<<JInt(2), JInt(0), JInt(Neg(1))>>), B, Ar(<<S(B), S(<<>>), S(A)>>))
D5 == O2(A, Ar(<<O2(A, JInt(1), B, S(Sx)), O2(A, JInt(0), B, S(Sy)), O2(A, JInt(1), B, S(Sz))>>),
         B, Ar(<<O1(A, S(<<107>>)), O1(A, S(<<106>>)), O1(B, JInt(1))>>))
D6 == O2(A, JNull, B, EmptyObj)
D7 == EmptyArr
D8 == S(<<97, 233>>)
\* slice documents: arrays of length 0..4 (and one below an identifier)
D9 == Ar(<<JInt(0)>>)
D10 == Ar(<<JInt(0), JInt(1)>>)
D11 == Ar(<<JInt(0), JInt(1), JInt(2)>>)
D12 == Ar(<<JInt(0), JInt(1), JInt(2), JInt(3)>>)
D13 == O1(A, Ar(<<O1(A, JInt(0)), JNull, O1(A, JInt(2)), O1(B, JInt(3)), O1(A, JInt(4))>>))
\* identifier document: keys that need quoting / escaping / are non-ASCII
KSpace == <<97, 32, 98>>  KAcute == <<233>>  KQuote == <<34>>  KDot == <<97, 46, 98>>  KDigit == <<49>>  KUnder == <<95, 120>>
KBack == <<92>>  KCheck == <<10003>>  KAstral == <<128512>>  KNl == <<10>>  KUp == <<65, 49>>
IdentKeys == {A, KSpace, KAcute, KQuote, KDot, KDigit, KUnder, KBack, KCheck, KAstral, KNl, KUp}
D14 == JObj([k \in IdentKeys \cup {<<>>} |-> IF k = A THEN JObj([q \in IdentKeys |-> S(q)]) ELSE S(k)])
\* comparator document: one element per value class
CmpVals == <<JNull, JBool(TRUE), JBool(FALSE), JInt(0), JInt(1), JInt(Neg(1)), S(<<>>), S(A), S(B), EmptyArr, Ar(<<JInt(1)>>),
             EmptyObj, O1(A, JInt(1)), Ar(<<JNull>>)>>
D15 == Ar(CmpVals)
\* stability documents: n objects {k: one of 2-3 keys in a non-monotone pattern, id: position}; exactly one element has the
\* unique largest and one the unique smallest key (so max_by / min_by are determined)
KK == <<107>>  KID == <<105, 100>>
Obj2(kv, i) == JObj((KK :> kv) @@ (KID :> JInt(i)))
NumKey(i, n) == IF i = n - 5 THEN 9 ELSE IF i = 4 THEN 0 ELSE 1 + ((i * 7) % 3)
StrKey(i, n) == IF i = 3 THEN <<122>> ELSE IF i = n - 2 THEN <<>> ELSE <<98 + ((i * 5) % 2)>>
D16 == Ar([i \in 1..17 |-> Obj2(JInt(NumKey(i, 17)), i)])
D17 == O1(A, Ar([i \in 1..24 |-> Obj2(S(StrKey(i, 24)), i)]))
D18 == Ar([i \in 1..40 |-> Obj2(JInt(NumKey(i, 40)), i)])
D19 == O1(A, Ar([i \in 1..33 |-> Obj2(JInt(1 + ((i * 3) % 2)), i)]))       \* two keys only, ties at both extremes
\* long arrays of numbers / strings with duplicates
D20 == Ar([i \in 1..17 |-> JInt((i * 7) % 5)])
D21 == O1(A, Ar([i \in 1..40 |-> S(<<97 + ((i * 11) % 4)>>)]))
D22 == Ar([i \in 1..29 |-> JInt(3 - ((i * i) % 7))])
Docs == <<D1, D2, D3, D4, D5, D6, D7, D8, D9, D10, D11, D12, D13, D14, D15, D16, D17, D18, D19, D20, D21, D22>>
DocSel == CASE Mode = "wrap" -> <<1, 2, 3, 4, 5, 6, 7, 8>>
            [] Mode = "fn" -> <<1, 3, 4, 5, 6>>
            [] Mode = "slice" -> <<7, 9, 10, 11, 12, 13, 3, 1, 4>>
            [] Mode = "stable" -> <<16, 17, 18, 19, 20, 21, 22>>
            [] Mode = "cmp" -> <<15, 6>>
            [] Mode = "ident" -> <<14, 1>>
            [] OTHER -> <<>>

-----------------------------------------------------------------------------
(* Appending a postfix to an expression, as appending text to the           *)
(* expression string does: inside the right-hand side of an open            *)
(* projection if there is one, else around the whole expression.  (Whether   *)
(* the result is a legal, unambiguous expression is decided by Renderable.) *)
Node(k, p, l) == CASE k = "sub" -> <<"sub", l, p>> [] k = "idx" -> <<"idx", l, p>> [] k = "prj" -> <<"prj", l, Cur>>
                   [] k = "vpr" -> <<"vpr", l, Cur>> [] k = "slc" -> <<"slc", l, p, Cur>> [] k = "fil" -> <<"fil", l, p, Cur>>
RECURSIVE PostRhs(_, _, _)
PostRhs(r, k, p) ==
  IF r = Cur THEN (IF k = "sub" THEN p ELSE Node(k, p, Cur))
  ELSE IF r[1] \in {"prj", "vpr"} THEN <<r[1], r[2], PostRhs(r[3], k, p)>>
  ELSE IF r[1] = "slc" THEN <<"slc", r[2], r[3], PostRhs(r[4], k, p)>>
  ELSE IF r[1] = "fil" THEN <<"fil", r[2], r[3], PostRhs(r[4], k, p)>>
  ELSE Node(k, p, r)
Post(x, k, p) ==
  IF k = "flt" THEN <<"flt", x, Cur>>
  ELSE IF x[1] \in {"prj", "vpr", "flt"} THEN <<x[1], x[2], PostRhs(x[3], k, p)>>
  ELSE IF x[1] = "slc" THEN <<"slc", x[2], x[3], PostRhs(x[4], k, p)>>
  ELSE IF x[1] = "fil" THEN <<"fil", x[2], x[3], PostRhs(x[4], k, p)>>
  ELSE Node(k, p, x)

\* W1, W2, W3 name the sibling alphabet (core < mid < full) of the first, second, third layer of wrapping
LayerSet == IF depth <= 1 THEN W1 ELSE IF depth = 2 THEN W2 ELSE W3
Lv == CASE LayerSet = "core" -> 1 [] LayerSet = "mid" -> 2 [] LayerSet = "full" -> 3
Pick(c, m, f) == IF Lv = 1 THEN c ELSE IF Lv = 2 THEN c \cup m ELSE c \cup m \cup f

Sl(a, b, c) == <<a, b, c>>
Slices == Pick({Sl(N(1), Ab, Ab), Sl(Ab, Ab, N(Neg(1)))},
               {Sl(Ab, N(Neg(1)), Ab), Sl(Ab, Ab, N(2))},
               {Sl(N(0), N(2), Ab), Sl(Ab, Ab, N(0)), Sl(N(Neg(2)), Ab, Ab)})
FilConds == Pick({Fa, Cmp("eq", Fa, I(1))},
                 {Cmp("gt", Cur, I(1)), Not(Fa)},
                 {Cmp("ne", Fb, L(JNull)), <<"and", Fa, Fb>>, Cmp("eq", Fn("type", <<Cur>>), Raw(<<97,114,114,97,121>>))})
DotRhs == Pick({Fa, Fb},
               {<<"mls", <<Fa, Fb>>>>, Fn("length", <<Cur>>)},
               {<<"mhs", <<<<A, Fa>>>>>>, Fn("type", <<Cur>>), Fn("not_null", <<Fa, Fb>>), Fn("foo", <<Cur>>), Fn("keys", <<Cur>>)})
Indexes == Pick({0, Neg(1)}, {1}, {2, Neg(3)})
PostWraps(x) == { Post(x, "sub", p) : p \in DotRhs } \cup { Post(x, "idx", n) : n \in Indexes }
                \cup { Post(x, "prj", 0), Post(x, "vpr", 0), Post(x, "flt", 0), Par(x) }
                \cup { Post(x, "slc", s) : s \in Slices } \cup { Post(x, "fil", c) : c \in FilConds }

PipeR == Pick({Fa, <<"idx", Cur, 0>>, <<"prj", Cur, Cur>>, <<"flt", Cur, Cur>>},
              {Fn("length", <<Cur>>), <<"vpr", Cur, Cur>>, Cur},
              {<<"fil", Cur, Fa, Cur>>, <<"slc", Cur, Sl(Ab, Ab, N(Neg(1))), Cur>>, Fn("sort", <<Cur>>), <<"mls", <<Cur, Fa>>>>})
PipeL == Pick({Fa}, {Fb}, {Cur})
BoolX == Pick({Fa}, {I(1)}, {Fb, L(JNull), L(EmptyArr)})
CmpOps == Pick({"eq", "lt"}, {"ne", "ge"}, {"le", "gt"})
CmpX == Pick({I(1)}, {Fa}, {Raw(A), L(JNull)})
BinWraps(x) == { <<"pipe", x, r>> : r \in PipeR } \cup { <<"pipe", l, x>> : l \in PipeL }
               \cup UNION { { <<"or", x, y>>, <<"or", y, x>>, <<"and", x, y>>, <<"and", y, x>> } : y \in BoolX }
               \cup { Not(x) }
               \cup UNION { { Cmp(op, x, y), Cmp(op, y, x) } : op \in CmpOps, y \in CmpX }
SelWraps(x) == { <<"mls", <<x>>>>, <<"mls", <<x, Fa>>>>, <<"mls", <<Fb, x>>>>, <<"mhs", <<<<A, x>>>>>> }
               \cup (IF Lv = 3 THEN { <<"mhs", <<<<A, x>>, <<B, Fb>>>>>>, <<"mhs", <<<<B, Fa>>, <<A, x>>>>>> } ELSE {})
Fn1 == Pick({"length", "sort", "to_array", "not_null", "keys", "sum"},
            {"values", "reverse", "max", "type", "abs", "to_number", "to_string", "min", "avg"},
            {"ceil", "floor", "merge", "foo", "map", "contains"})
OA1 == O1(A, JInt(1))
FnWraps(x) == { Fn(n, <<x>>) : n \in Fn1 }
   \cup Pick({ Fn("contains", <<x, I(1)>>), Fn("map", <<Ref(x), Fa>>), Fn("map", <<Ref(Fa), x>>), Fn("sort_by", <<x, Ref(Fa)>>),
               Fn("join", <<Raw(<<44>>), x>>) },
             { Fn("max_by", <<x, Ref(Fa)>>), Fn("min_by", <<x, Ref(Fb)>>), Fn("sort_by", <<Fa, Ref(x)>>), Fn("contains", <<x, Raw(A)>>),
               Fn("starts_with", <<x, Raw(A)>>), Fn("ends_with", <<x, Raw(B)>>), Fn("merge", <<x, L(OA1)>>), Fn("not_null", <<x, Fa>>),
               Fn("not_null", <<Fa, x>>) },
             { Fn("abs", <<x, x>>), Fn("max_by", <<Fa, Ref(x)>>), Fn("contains", <<Fa, x>>), Fn("join", <<x, Fb>>), Fn("merge", <<L(OA1), x>>),
               Fn("sort_by", <<x, Fa>>), Fn("map", <<x, Fa>>), Fn("length", <<Ref(x)>>) })
RhsL == Pick({Fa}, {Cur}, {})
RhsWraps(x) == UNION { { <<"prj", l, x>>, <<"flt", l, x>>, <<"vpr", l, x>>, <<"fil", l, Fa, x>>, <<"fil", l, x, Cur>>,
                         <<"slc", l, Sl(N(1), Ab, Ab), x>> } : l \in RhsL }
\* an expression is generated when its string reading is unambiguous
Gen(y) == Renderable(y)
Wraps(x) == { y \in PostWraps(x) \cup BinWraps(x) \cup SelWraps(x) \cup FnWraps(x) \cup RhsWraps(x) : Gen(y) }

Bases == Pick({Cur, Fa, Fb}, {}, {I(1), Raw(A), L(Ar(<<JInt(1), Ar(<<JInt(2)>>), JNull>>))})

-----------------------------------------------------------------------------
(* fn mode.  (The case sets take a dummy parameter so that TLC does not pre-compute them in every mode.) *)
AllFns == KnownFns \cup {"foo"}
ArrIS == Ar(<<JInt(1), S(A)>>)
ArgsBig == { L(JNull), L(JBool(TRUE)), I(Neg(1)), I(2), Raw(A), Raw(<<97, 98>>), Raw(<<>>), Raw(<<49>>), L(EmptyArr), L(Ar(<<JInt(2), JInt(1)>>)),
             L(Ar(<<S(B), S(A)>>)), L(ArrIS), L(EmptyObj), L(OA1), Fa, Cur, Ref(Fa), Ref(Cur) }
ArgsSmall == { L(JNull), I(2), Raw(A), L(OA1), L(O1(B, JInt(2))), Fa, Ref(Fa) }
FnCases(u) == { Fn(n, <<>>) : n \in AllFns } \cup { Fn(n, <<x>>) : n \in AllFns, x \in ArgsBig }
           \cup { Fn(n, <<x, y>>) : n \in { m \in AllFns : Arity(m) # 1 }, x \in ArgsBig, y \in ArgsBig }
           \cup { Fn(n, <<x, y>>) : n \in { m \in AllFns : Arity(m) = 1 }, x \in ArgsSmall, y \in ArgsSmall }
           \cup { Fn(n, <<x, y, z>>) : n \in {"merge", "not_null"}, x \in ArgsSmall, y \in ArgsSmall, z \in ArgsSmall }
           \cup { Fn(n, <<x, Fa, L(JNull)>>) : n \in AllFns, x \in ArgsSmall }
FnOuter(x) == { y \in { <<"prj", Fa, x>>, <<"pipe", x, <<"idx", Cur, 0>>>>, <<"idx", x, 0>>, <<"sub", x, Fa>>, <<"mls", <<x, Fa>>>>,
                        <<"flt", x, Cur>>, Fn("to_array", <<x>>), <<"or", x, Fa>>, Not(x), <<"fil", Fa, x, Cur>> } : Gen(y) }

(* slice mode *)
Parts == {Ab} \cup { N(i) : i \in 0..SlRange } \cup { N(Neg(i)) : i \in 1..SlRange }
SliceCases(u) == { <<"slc", Cur, Sl(a, b, c), Cur>> : a \in Parts, b \in Parts, c \in Parts }
              \cup { <<"slc", Fa, Sl(a, b, c), Fa>> : a \in Parts, b \in {Ab, N(1), N(Neg(1))}, c \in Parts }
              \cup { <<"idx", Cur, i>> : i \in (0 - SlRange - 2)..(SlRange + 2) }
              \* a second slice in one expression that omits a bound: after a pipe, in a multi-select, inside a projection
              \cup { <<"pipe", <<"slc", Fa, Sl(N(2), N(8), Ab), Cur>>, <<"slc", Cur, Sl(Ab, N(3), Ab), Cur>>>>,
                     <<"pipe", <<"slc", Fa, Sl(N(1), Ab, Ab), Cur>>, <<"slc", Cur, Sl(Ab, N(2), Ab), Cur>>>>,
                     <<"pipe", <<"slc", Fa, Sl(Ab, N(3), Ab), Cur>>, <<"slc", Cur, Sl(N(1), Ab, Ab), Cur>>>>,
                     <<"mls", <<<<"slc", Fa, Sl(N(1), Ab, Ab), Cur>>, <<"slc", Fb, Sl(Ab, N(2), Ab), Cur>>>>>>,
                     <<"mls", <<<<"slc", Fa, Sl(Ab, N(2), Ab), Cur>>, <<"slc", Fa, Sl(N(1), Ab, Ab), Cur>>>>>>,
                     <<"slc", Fa, Sl(N(1), N(3), Ab), <<"prj", Cur, <<"slc", Cur, Sl(Ab, N(1), Ab), Cur>>>>>>,
                     <<"slc", Fa, Sl(N(1), Ab, Ab), <<"slc", Cur, Sl(Ab, N(2), Ab), Cur>>>>,
                     <<"slc", Cur, Sl(Ab, N(3), Ab), <<"slc", Cur, Sl(N(1), Ab, Ab), Cur>>>>,
                     <<"slc", <<"slc", Fa, Sl(N(1), Ab, Ab), Cur>>, Sl(Ab, N(2), Ab), Cur>> }

(* cmp mode *)
AllOps == {"eq", "ne", "lt", "le", "gt", "ge"}
CV == { CmpVals[i] : i \in 1..Len(CmpVals) }
CmpCases(u) == { Cmp(op, L(x), L(y)) : op \in AllOps, x \in CV, y \in CV }
            \cup { <<"and", L(x), L(y)>> : x \in CV, y \in CV } \cup { <<"or", L(x), L(y)>> : x \in CV, y \in CV }
            \cup { Not(L(x)) : x \in CV } \cup { Not(Not(L(x))) : x \in CV }
            \cup { <<"fil", Cur, Cmp(op, Cur, L(y)), Cur>> : op \in AllOps, y \in CV }
            \cup { <<"fil", Cur, Cmp(op, L(y), Cur), Cur>> : op \in AllOps, y \in CV }
            \cup { <<"fil", Cur, Cur, Cur>>, <<"fil", Cur, Not(Cur), Cur>>, <<"prj", Cur, <<"mls", <<Not(Cur)>>>>>>, <<"prj", Cur, <<"mls", <<<<"or", Cur, I(7)>>>>>>>> }
            \cup { <<"or", <<"and", L(x), L(y)>>, L(z)>> : x \in {JNull, JInt(0)}, y \in {JBool(FALSE), S(A)}, z \in {EmptyArr, JInt(1)} }
            \cup { <<"or", L(x), <<"and", L(y), L(z)>>>> : x \in {JNull, JInt(0)}, y \in {JBool(FALSE), S(A)}, z \in {EmptyArr, JInt(1)} }
            \cup { <<"and", Par(<<"or", L(x), L(y)>>), L(z)>> : x \in {JNull, JInt(0)}, y \in {JBool(FALSE), S(A)}, z \in {EmptyArr, JInt(1)} }
            \cup { <<"or", Cmp("lt", L(x), L(y)), Cmp("eq", L(y), L(z))>> : x \in {JInt(0), JInt(1)}, y \in {JInt(1), S(A)}, z \in {JInt(1), JNull} }

(* stable mode *)
FK == <<"fld", KK>>  FID == <<"fld", KID>>
Rev1 == Sl(Ab, Ab, N(Neg(1)))
StableSubjects == { Cur, Fa, Fn("reverse", <<Cur>>), Fn("reverse", <<Fa>>), <<"slc", Cur, Rev1, Cur>>, <<"slc", Fa, Sl(N(1), Ab, Ab), Cur>> }
StableCases(u) ==
  UNION { { Fn("sort_by", <<x, Ref(FK)>>), <<"prj", Fn("sort_by", <<x, Ref(FK)>>), FID>>, <<"prj", Fn("sort_by", <<x, Ref(FK)>>), FK>>,
            <<"pipe", Fn("sort_by", <<x, Ref(FK)>>), <<"idx", Cur, 0>>>>, <<"sub", <<"idx", Fn("sort_by", <<x, Ref(FK)>>), Neg(1)>>, FID>>,
            Fn("reverse", <<Fn("sort_by", <<x, Ref(FK)>>)>>), Fn("map", <<Ref(FID), Fn("sort_by", <<x, Ref(FK)>>)>>),
            <<"prj", Fn("sort_by", <<Fn("sort_by", <<x, Ref(FID)>>), Ref(FK)>>), FID>>,
            <<"slc", Fn("sort_by", <<x, Ref(FK)>>), Sl(N(2), N(9), Ab), FID>>,
            <<"prj", Fn("sort_by", <<x, Ref(Fn("to_string", <<FK>>))>>), FID>>,
            <<"prj", Fn("sort_by", <<x, Ref(Fn("length", <<Fn("to_array", <<FK>>)>>))>>), FID>>,       \* one key for all: order unchanged
            Fn("max_by", <<x, Ref(FK)>>), Fn("min_by", <<x, Ref(FK)>>), <<"sub", Fn("max_by", <<x, Ref(FK)>>), FID>>,
            <<"sub", Fn("min_by", <<x, Ref(FID)>>), FID>>, <<"sub", Fn("max_by", <<x, Ref(FID)>>), FID>>,
            Fn("sort", <<x>>), Fn("sort", <<<<"prj", x, FK>>>>), Fn("sort", <<<<"prj", x, FID>>>>), Fn("reverse", <<Fn("sort", <<x>>)>>),
            <<"idx", Fn("sort", <<x>>), 0>>, Fn("max", <<x>>), Fn("min", <<x>>), Fn("sort_by", <<x, Ref(Cur)>>),
            Fn("max", <<<<"prj", x, FK>>>>), Fn("min", <<<<"prj", x, FK>>>>), Fn("length", <<Fn("sort_by", <<x, Ref(FK)>>)>>) }
          : x \in StableSubjects }

(* ident mode *)
IdentCases(u) == { <<"fld", k>> : k \in IdentKeys } \cup { <<"sub", Fa, <<"fld", k>>>> : k \in IdentKeys }
              \cup { <<"mhs", <<<<k, <<"fld", k>>>>, <<A, Cur>>>>>> : k \in IdentKeys \ {A} } \cup { L(S(k)) : k \in IdentKeys }
              \cup { Raw(k) : k \in IdentKeys \ {KBack, KNl} } \cup { Raw(<<97, 39, 98>>), Raw(<<39>>), Raw(<<>>), L(S(<<>>)) }
              \cup { L(JObj(k :> JInt(1))) : k \in IdentKeys \cup {<<>>} } \cup { L(Ar(<<S(k), S(A)>>)) : k \in IdentKeys }
              \cup { Cmp("eq", <<"fld", k>>, L(S(k))) : k \in IdentKeys } \cup { Cmp("eq", <<"fld", k>>, Raw(k)) : k \in IdentKeys \ {KBack, KNl} }
              \cup { <<"prj", <<"vpr", Cur, Cur>>, Fn("length", <<Cur>>)>>, Fn("keys", <<Cur>>), Fn("values", <<Cur>>), Fn("length", <<Fa>>),
                     <<"vpr", Fa, Fn("length", <<Cur>>)>>, Fn("sort", <<Fn("keys", <<Fa>>)>>), Fn("reverse", <<<<"fld", KAstral>>>>),
                     Fn("sort", <<Fn("values", <<Fa>>)>>), Fn("max", <<Fn("keys", <<Fa>>)>>), Fn("join", <<Raw(KAcute), Fn("sort", <<Fn("keys", <<Fa>>)>>)>>) }

-----------------------------------------------------------------------------
First == CASE Mode = "wrap" -> Bases [] Mode = "fn" -> FnCases(0) [] Mode = "slice" -> SliceCases(0) [] Mode = "cmp" -> CmpCases(0)
           [] Mode = "ident" -> IdentCases(0) [] Mode = "stable" -> StableCases(0) [] Mode = "docs" -> { I(i) : i \in 1..Len(Docs) }
Init == e = Cur /\ depth = 0
Next == \/ /\ depth = 0 /\ depth' = 1 /\ e' \in { x \in First : Gen(x) }
        \/ /\ depth >= 1 /\ depth < MaxDepth /\ depth' = depth + 1
           /\ CASE Mode = "wrap" -> e' \in Wraps(e)
                [] Mode = "fn" -> e' \in FnOuter(e)
                [] OTHER -> FALSE
View == e

Enc(r) == IF r[1] = "err" THEN <<"e", r[2]>> ELSE IF r[1] = "dc" THEN <<"dc", r[2]>> ELSE <<"v", Wire(r)>>
\* prediction: the specification, strictly (xf = {}), under both member orders when the order can matter
Res(x, d, uo) == LET ra == Ev(x, d, Env("asc", {})) IN
                 IF uo THEN (LET rd == Ev(x, d, Env("desc", {})) IN IF ra = rd THEN Enc(ra) ELSE <<"od", Enc(ra), Enc(rd)>>) ELSE Enc(ra)
\* classification: names of the known-deviation classes the (expression, document) falls into
ValueDevs == KnownDeviations \cap ValueDeviationNames
DevsFor(x, d, ord) == LET strict == Ev(x, d, Env(ord, {})) IN
                      IF Ev(x, d, Env(ord, ValueDevs)) = strict THEN {}
                      ELSE LET s == { n \in ValueDevs : Ev(x, d, Env(ord, {n})) # strict } IN IF s = {} THEN ValueDevs ELSE s
Devs(x, d, uo, may, shape) == shape \cup (IF may THEN DevsFor(x, d, "asc") \cup (IF uo THEN DevsFor(x, d, "desc") ELSE {}) ELSE {})
CaseRec == LET uo == UsesOrder(e)
               may == ValueDevs # {} /\ MayDeviate(e)
               shape == { n \in KnownDeviations \cap ShapeDeviationNames : ShapeDeviation(e, {n}) }
               base == [e |-> Show(e), ds |-> DocSel, r |-> [i \in 1..Len(DocSel) |-> Res(e, Docs[DocSel[i]], uo)], se |-> StaticErr(e),
                        dev |-> [i \in 1..Len(DocSel) |-> SetToSeq(Devs(e, Docs[DocSel[i]], uo, may, shape))]]
           IN IF EmitAst THEN [e |-> base.e, ds |-> base.ds, r |-> base.r, se |-> base.se, dev |-> base.dev, ast |-> AstWire(e)] ELSE base
Emit == IF depth = 0 THEN TRUE
        ELSE IF Mode = "docs" THEN PrintT(ToJson([doc |-> e[2][2], d |-> Wire(Docs[e[2][2]])]))
        ELSE PrintT(ToJson(CaseRec))

-----------------------------------------------------------------------------
(* Model-internal obligations: identities that follow from the              *)
(* specification text, checked on every (expression, document) enumerated.  *)
NoNulls(s) == SelectSeq(s, LAMBDA x : x[1] # "null")
Flat(s) == \A i \in 1..Len(s) : s[i][1] # "arr"
E1(x, v) == Search(x, v)
\* closed form of the number of elements a slice selects (RFC 9535 2.3.4.2.2 gives the same normalisation)
SliceCount(len, sl) == LET step == IF sl[3] = <<>> THEN 1 ELSE sl[3][1]
                           lo == IF sl[1] = <<>> THEN (IF step < 0 THEN len - 1 ELSE 0) ELSE Clamp(len, sl[1][1], step)
                           hi == IF sl[2] = <<>> THEN (IF step < 0 THEN 0 - 1 ELSE len) ELSE Clamp(len, sl[2][1], step)
                       IN IF step > 0 THEN (IF hi <= lo THEN 0 ELSE ((hi - lo - 1) \div step) + 1)
                          ELSE (IF hi >= lo THEN 0 ELSE ((lo - hi - 1) \div (0 - step)) + 1)
ValueLaws(R) ==
  /\ IsArrV(R) =>
       /\ LET f1 == E1(<<"flt", Cur, Cur>>, R) IN                       \* flatten is idempotent on flat lists
            Flat(f1[2]) => E1(<<"flt", Cur, Cur>>, f1) = f1
       /\ E1(<<"slc", Cur, Sl(Ab, Ab, Ab), Cur>>, R) = Ar(NoNulls(R[2]))     \* [:] is the identity projection
       /\ E1(<<"prj", Cur, Cur>>, R) = Ar(NoNulls(R[2]))                      \* [*] likewise
       /\ E1(<<"pipe", <<"slc", Cur, Sl(Ab, Ab, N(Neg(1))), Cur>>, <<"slc", Cur, Sl(Ab, Ab, N(Neg(1))), Cur>>>>, R) = Ar(NoNulls(R[2]))
       /\ E1(Fn("reverse", <<Fn("reverse", <<Cur>>)>>), R) = R
       /\ E1(Fn("length", <<Cur>>), R) = JInt(Len(R[2]))
       /\ E1(Fn("to_array", <<Cur>>), R) = R
       /\ (AllNum(R[2]) \/ AllStr(R[2])) =>
            /\ E1(Fn("sort", <<Cur>>), R) = E1(Fn("sort_by", <<Cur, Ref(Cur)>>), R)
            /\ E1(Fn("max", <<Cur>>), R) = E1(<<"idx", Fn("sort", <<Cur>>), Neg(1)>>, R)
            /\ E1(Fn("min", <<Cur>>), R) = E1(<<"idx", Fn("sort", <<Cur>>), 0>>, R)
            /\ E1(Fn("sort", <<Fn("sort", <<Cur>>)>>), R) = E1(Fn("sort", <<Cur>>), R)
       /\ E1(Fn("map", <<Ref(Fa), Cur>>), R)[1] = "arr"
       /\ Ar(NoNulls(E1(Fn("map", <<Ref(Fa), Cur>>), R)[2])) = E1(<<"prj", Cur, Fa>>, R)      \* map keeps nulls, projection drops them
  /\ IsObjV(R) =>
       /\ E1(Fn("length", <<Fn("keys", <<Cur>>)>>), R) = E1(Fn("length", <<Cur>>), R)
       /\ E1(Fn("length", <<Fn("values", <<Cur>>)>>), R) = E1(Fn("length", <<Cur>>), R)
       /\ E1(<<"vpr", Cur, Cur>>, R) = Ar(NoNulls(E1(Fn("values", <<Cur>>), R)[2]))
       /\ E1(Fn("merge", <<Cur, Cur>>), R) = R
  /\ ~Abn(R) =>
       /\ E1(Not(Not(Cur)), R) = JBool(Truthy(R))
       /\ E1(<<"or", Cur, Cur>>, R) = R /\ E1(<<"and", Cur, Cur>>, R) = R
       /\ E1(Cmp("eq", Cur, Cur), R) = JBool(TRUE) /\ E1(Cmp("ne", Cur, Cur), R) = JBool(FALSE)
       /\ E1(Fn("not_null", <<Cur, I(1)>>), R) = (IF R[1] = "null" THEN JInt(1) ELSE R)
       /\ E1(Fn("type", <<Cur>>), R)[1] = "str"
ExprLaws(x, d) ==
  \* a pipe and a sub-expression agree when the left side is not an open projection
  /\ (x[1] = "sub" => E1(<<"pipe", x[2], x[3]>>, d) = E1(x, d))
  /\ (x[1] = "pipe" /\ x[2][1] \in ClosedK /\ x[3][1] \in DotRhsK => E1(<<"sub", x[2], x[3]>>, d) = E1(x, d))
  \* parentheses do not change a value
  /\ E1(Par(x), d) = E1(x, d)
  \* De Morgan on truthiness
  /\ (x[1] = "and" /\ ~Abn(E1(x[2], d)) /\ ~Abn(E1(x[3], d)) =>
        E1(Not(Par(x)), d) = JBool(~Truthy(E1(x[2], d)) \/ ~Truthy(E1(x[3], d))))
  \* a slice selects the closed-form number of elements, all of them elements of the array
  /\ (x[1] = "slc" /\ x[2] = Cur /\ x[4] = Cur /\ IsArrV(d) /\ ~StepZero(x[3]) =>
        /\ Len(SliceOf(d[2], x[3])) = SliceCount(Len(d[2]), x[3])
        /\ \A i \in 1..Len(SliceOf(d[2], x[3])) : \E j \in 1..Len(d[2]) : d[2][j] = SliceOf(d[2], x[3])[i])
\* sort_by is stable: the result is ordered by key, and elements with equal keys keep their relative (id) order
StableLaw(d) == LET arr == IF IsArrV(d) THEN d ELSE E1(Fa, d)
                    r == E1(Fn("sort_by", <<Cur, Ref(FK)>>), arr)
                IN (IsArrV(arr) /\ ~Abn(r) /\ Len(arr[2]) > 0 /\ IsObjV(arr[2][1])) =>
                     /\ Len(r[2]) = Len(arr[2])
                     /\ \A i \in 1..(Len(r[2]) - 1) :
                          LET x == r[2][i][2]  y == r[2][i + 1][2] IN
                          \/ VLess(x[KK], y[KK])
                          \/ (x[KK] = y[KK] /\ x[KID][2] < y[KID][2])
Identities == depth >= 1 /\ Mode # "docs" =>
  /\ \A i \in 1..Len(DocSel) : LET d == Docs[DocSel[i]]  R == E1(e, d) IN ExprLaws(e, d) /\ (Abn(R) \/ ValueLaws(R))
  /\ (Mode = "stable" => \A i \in 1..Len(DocSel) : StableLaw(Docs[DocSel[i]]))
=============================================================================
