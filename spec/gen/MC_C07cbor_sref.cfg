INIT Init
NEXT Next
INVARIANT Emit
CHECK_DEADLOCK FALSE
CONSTANTS
  Format = "cbor"
  MaxLen = 1
  ExhLen = 0
  Reps = {}
  OnlyAccepted = FALSE
  TokMode = "sref"
