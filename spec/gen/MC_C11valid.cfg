INIT Init
NEXT Next
INVARIANT Agrees
CHECK_DEADLOCK FALSE
