CONSTANTS
 MaxSegs = 4
 Nested = FALSE
INIT Init
NEXT Next
INVARIANT Emit
CHECK_DEADLOCK FALSE
