CONSTANTS
 MaxSegs = 4
 PtrMode = FALSE
 Nested = FALSE
INIT Init
NEXT Next
INVARIANT Emit
CHECK_DEADLOCK FALSE
