---------------------------- MODULE C07RepCbor ----------------------------
(* Length-boundary inputs for CBOR: every length-carrying head form at the  *)
(* boundary counts of its width, followed by exactly / one fewer / one more *)
(* elements (symbolic repetition).  Used by MC_C07 in TokMode "rep".        *)
EXTENDS Naturals, Sequences
LOCAL Rep(x, n) == [i \in 1..(n * Len(x)) |-> x[((i - 1) % Len(x)) + 1]]
LOCAL BE(n, w) == [i \in 1..w |-> (n \div (256 ^ (w - i))) % 256]
\* head of major type m with argument n in the width class w (0 = immediate, 1, 2, 4 bytes)
LOCAL Hd(m, n, w) == IF w = 0 THEN <<m * 32 + n>> ELSE <<m * 32 + (CASE w = 1 -> 24 [] w = 2 -> 25 [] w = 4 -> 26)>> \o BE(n, w)
LOCAL Key(i) == <<98, 64 + (i \div 60), 64 + (i % 60)>>          \* distinct two-character text keys
LOCAL Pairs(n) == IF n = 0 THEN <<>> ELSE [i \in 1..(n * 4) |-> LET p == (i - 1) \div 4  q == (i - 1) % 4 IN IF q < 3 THEN Key(p)[q + 1] ELSE 1]
LOCAL Counts == { <<0, 0>>, <<1, 0>>, <<23, 0>>, <<0, 1>>, <<23, 1>>, <<24, 1>>, <<25, 1>>, <<255, 1>>, <<24, 2>>, <<255, 2>>, <<256, 2>>, <<257, 2>>, <<1, 4>>, <<256, 4>> }
LOCAL Adj(n) == {n} \cup (IF n > 0 THEN {n - 1} ELSE {}) \cup {n + 1}
CborRepInputs ==
  UNION { { Hd(4, c[1], c[2]) \o Rep(<<0>>, k) : k \in Adj(c[1]) } : c \in Counts } \cup          \* arrays of small uints
  UNION { { Hd(5, c[1], c[2]) \o Pairs(k) : k \in Adj(c[1]) } : c \in Counts } \cup             \* maps with distinct keys
  UNION { { Hd(3, c[1], c[2]) \o Rep(<<97>>, k) : k \in Adj(c[1]) } : c \in Counts } \cup       \* text strings
  UNION { { Hd(2, c[1], c[2]) \o Rep(<<255>>, k) : k \in Adj(c[1]) } : c \in Counts } \cup      \* byte strings
  { <<159>> \o Rep(<<0>>, k) \o <<255>> : k \in {0, 1, 24, 256} } \cup                          \* indefinite array
  { <<191>> \o Pairs(k) \o <<255>> : k \in {0, 1, 24, 256} }                                    \* indefinite map
=============================================================================
