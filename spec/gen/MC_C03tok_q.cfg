INIT Init
NEXT Next
INVARIANT Emit
CHECK_DEADLOCK FALSE
CONSTANTS
  MaxLen = 3
  Mode = "tok"
  Alphabet = {32, 13, 10, 91, 93, 123, 125, 44, 58, 34, 92, 47, 42, 48, 49, 45, 46, 101, 117, 116, 114, 110, 108, 195, 169}
