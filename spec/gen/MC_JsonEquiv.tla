---------------------------- MODULE MC_JsonEquiv ----------------------------
(* Model-internal check: the pushdown machine (JsonText) and the grammar-   *)
(* directed recogniser (JsonGrammar) accept the same texts, for every text  *)
(* in bound that is not in the declared don't-care set.                     *)
EXTENDS JsonText
G == INSTANCE JsonGrammar
CONSTANTS MaxLen, Alphabet
VARIABLES txt, st
Init == txt = <<>> /\ st = Init0
Next == /\ st.m # "dead" /\ Len(txt) < MaxLen
        /\ \E c \in Alphabet : txt' = Append(txt, c) /\ st' = Step(st, c)
Strict(s) == AcceptAtEof(s) /\ ~s.uc /\ ~s.ut
Equiv == st.dc \/ (Strict(st) <=> G!IsJsonText(txt))
=============================================================================
