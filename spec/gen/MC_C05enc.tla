----------------------------- MODULE MC_C05enc -----------------------------
(* C05, encoder side: "every value and option set given to any encoder".     *)
(* TLC enumerates (value, option set) pairs; the harness (ASan + UBSan)      *)
(* gives each to every text and binary encoder and records the outcome       *)
(* (ApiOutcome: Return | ErrorCode | JsonException are the only outcomes     *)
(* allowed).  Values are BinModel values (binval.hpp builds them): doubles   *)
(* by bit pattern at every magnitude boundary, integer boundaries, strings,  *)
(* byte strings, big numbers, containers.  Option sets: the defaults, every  *)
(* option moved alone through its value set, float_format x precision in     *)
(* full, and pretty-print layouts with small line length limits.             *)
EXTENDS Naturals, Sequences, Json, TLC
CONSTANTS Big
VARIABLES c, phase

\* ---- values
F64(bs) == <<"f64", bs>>
Doubles == { F64(<<0,0,0,0,0,0,0,0>>), F64(<<128,0,0,0,0,0,0,0>>),                                  \* +0 -0
             F64(<<63,240,0,0,0,0,0,0>>), F64(<<191,240,0,0,0,0,0,0>>), F64(<<63,185,153,153,153,153,153,154>>),   \* 1 -1 0.1
             F64(<<64,254,36,12,159,190,118,201>>),                                                 \* 123456.789
             F64(<<0,0,0,0,0,0,0,1>>), F64(<<0,16,0,0,0,0,0,0>>), F64(<<128,15,255,255,255,255,255,255>>),      \* min subnormal, min normal, -max subnormal
             F64(<<127,239,255,255,255,255,255,255>>), F64(<<255,239,255,255,255,255,255,255>>),   \* +-DBL_MAX
             F64(<<127,225,204,243,133,235,200,160>>), F64(<<255,225,204,243,133,235,200,160>>),   \* +-1e308
             F64(<<84,178,73,173,37,148,195,125>>), F64(<<68,75,26,178,19,41,33,97>>),              \* 1e100, 1e21
             F64(<<67,64,0,0,0,0,0,0>>), F64(<<67,240,0,0,0,0,0,0>>),                               \* 2^53, 2^64
             F64(<<43,47,255,43,186,229,49,210>>),                                                  \* 1e-100 (approx.)
             F64(<<127,240,0,0,0,0,0,0>>), F64(<<255,240,0,0,0,0,0,0>>), F64(<<127,248,0,0,0,0,0,0>>) }    \* +inf -inf NaN
Ints == { <<"uint", <<>>>>, <<"uint", <<255,255,255,255,255,255,255,255>>>>, <<"uint", <<127,255,255,255,255,255,255,255>>>>,
          <<"nint", <<>>>>, <<"nint", <<127,255,255,255,255,255,255,255>>>> }
Strs == { <<"tstr", <<>>>>, <<"tstr", <<97>>>>, <<"tstr", <<34, 92, 47, 10, 1, 127>>>>, <<"tstr", <<195, 169, 240, 159, 152, 128>>>>,
          <<"tstr", <<49, 50, 51, 52, 53, 54, 55, 56, 57, 48, 49, 50, 51, 52, 53, 54, 55, 56, 57, 48, 49, 50, 51, 52>>>> }
Bstrs == { <<"bstr", <<>>>>, <<"bstr", <<0, 255, 1>>>> }
Atoms == Doubles \cup Ints \cup Strs \cup Bstrs \cup { <<"null">>, <<"bool", TRUE>> }
Big1 == <<"big", "bigint", "-123456789012345678901234567890">>        \* tagged strings (binval: ["big", tag, text])
Big2 == <<"big", "bigdec", "1.5e+400">>
Big3 == <<"big", "bigdec", "-0.000000000000000000000000000001e-9223372036854775807">>
Bigs == { Big1, Big2, Big3 }      \* (a tagged string that is not decimal text is not a data-model value: not generated)
Arr(xs) == <<"arr", xs>>
Map(ps) == <<"map", ps>>
K(s) == <<"tstr", s>>
AllDoubles == Arr(<< F64(<<127,239,255,255,255,255,255,255>>), F64(<<0,0,0,0,0,0,0,1>>), F64(<<63,185,153,153,153,153,153,154>>), F64(<<127,240,0,0,0,0,0,0>>), F64(<<127,248,0,0,0,0,0,0>>) >>)
Containers == { Arr(<<>>), Map(<<>>), AllDoubles,
                Arr(<< Arr(<<>>), Map(<<>>), Arr(<< Arr(<< <<"null">> >>) >>) >>),
                Map(<< <<K(<<97>>), Arr(<< <<"uint", <<1>>>>, <<"tstr", <<120>>>> >>)>>, <<K(<<>>), Map(<< <<K(<<34>>), F64(<<255,239,255,255,255,255,255,255>>)>> >>)>> >>),
                Arr(<< Map(<< <<K(<<97>>), <<"uint", <<1>>>>>>, <<K(<<98>>), F64(<<127,225,204,243,133,235,200,160>>)>> >>), Map(<< <<K(<<97>>), <<"tstr", <<44, 34>>>>>>, <<K(<<98>>), <<"null">>>> >>) >>),
                Arr(<< Arr(<< <<"uint", <<1>>>>, F64(<<255,225,204,243,133,235,200,160>>) >>), Arr(<< <<"tstr", <<10>>>>, <<"bool", FALSE>> >>) >>) }
\* strings carrying a semantic tag other than bigint / bigdec (tag number = the enumerator of jsoncons::semantic_tag), bare and as a member
\* value: the text may or may not have the form the tag announces - an encoder may refuse it, through its error channel
TagTexts == { "", "abc", "0123456789abcdef01234567", "/a.*b/i", "/", "1.5", "-1", "2020-01-01T00:00:00Z", "0x1.8p3", "aGVsbG8" }
TagStrs == { <<w, t, x>> : w \in {"tagstr", "tagmap"}, t \in (4..21) \ {13}, x \in TagTexts }
Values == Atoms \cup Bigs \cup Containers

\* ---- option sets (fields: numbers are enumerators in declaration order, 255 = leave the default)
Def == [ff |-> 0, prec |-> 0, bignum |-> 0, bsf |-> 0, nan |-> 0, eana |-> 0, esol |-> 0, indent |-> 4, ichar |-> 32, sac |-> 1, scm |-> 1,
        pob |-> 0, pab |-> 0, oo |-> 0, ao |-> 0, oa |-> 2, aa |-> 1, root |-> 0, lll |-> 120, nl |-> 0, depth |-> 1024]
Precs == {0, 1, 6, 15, 17, 18, 50, 100, 127}
Floats == { [Def EXCEPT !.ff = f, !.prec = p] : f \in 0..3, p \in Precs }
Singles == { [Def EXCEPT !.bignum = x] : x \in 1..3 } \cup { [Def EXCEPT !.bsf = x] : x \in 1..3 }
      \cup { [Def EXCEPT !.nan = x] : x \in 1..4 }                       \* 1: *_to_num numbers, 2: *_to_num odd text, 3: *_to_str, 4: both
      \cup { [Def EXCEPT !.eana = 1], [Def EXCEPT !.esol = 1], [Def EXCEPT !.eana = 1, !.esol = 1] }
      \cup { [Def EXCEPT !.indent = x] : x \in {0, 1, 255} } \cup { [Def EXCEPT !.ichar = 9] }
      \cup { [Def EXCEPT !.sac = x, !.scm = y] : x, y \in 0..3 }
      \cup { [Def EXCEPT !.pob = 1, !.pab = 1] }
      \cup { [Def EXCEPT !.nl = x] : x \in 1..3 }                        \* "\r\n", "", "<br>"
      \cup { [Def EXCEPT !.depth = x] : x \in {0, 1, 2} }
Layouts == { [Def EXCEPT !.oo = a, !.ao = a, !.oa = b, !.aa = b, !.root = r, !.lll = l] : a, b \in 0..2, r \in {0, 2}, l \in {0, 1, 10, 120} }
OptSets == {Def} \cup Floats \cup Singles \cup (IF Big THEN Layouts ELSE { o \in Layouts : o.lll \in {1, 10} /\ o.root = 0 })
\* float formatting only matters for values with a double; everything else runs with the other option sets
HasDouble(v) == v \in Doubles \/ v = AllDoubles \/ v \in Containers
Cases == { [k |-> "enc", v |-> v, o |-> o] : v \in { x \in Values : HasDouble(x) }, o \in Floats }
    \cup { [k |-> "enc", v |-> v, o |-> o] : v \in Values, o \in OptSets \ Floats }
    \cup { [k |-> "enc", v |-> v, o |-> Def] : v \in TagStrs }
Init == phase = 0 /\ c = [k |-> "none"]
Next == phase = 0 /\ phase' = 1 /\ c' \in Cases
Emit == phase = 1 => PrintT(ToJson(c))
=============================================================================
