INIT Init
NEXT Next
INVARIANTS Emit Law Necessity
CHECK_DEADLOCK FALSE
CONSTANTS
  Family = "names"
  Delims = {44}
  QEs = {"dd", "db"}
  Lds = {"lf"}
  Big = FALSE
