INIT Init
NEXT Next
INVARIANT Emit
CHECK_DEADLOCK FALSE
CONSTANTS
  Format = "bson"
  MaxLen = 8
  ExhLen = 0
  Reps = {0, 1, 7, 8, 10}
  OnlyAccepted = FALSE
  TokMode = "bytes"
