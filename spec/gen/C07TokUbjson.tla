---------------------------- MODULE C07TokUbjson ----------------------------
(* STUB - head/payload tokens of the Ubjson token-level generator. *)
UbjsonTokens == { <<0>> }
UbjsonSmallTokens == { <<0>> }
=============================================================================
