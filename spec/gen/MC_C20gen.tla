----------------------------- MODULE MC_C20gen -----------------------------
(* C20 generator: thread counts x assignments of operation streams to        *)
(* threads x start skews.  Operations (named; implemented by the harness on  *)
(* the shared immutable artefacts): schema is_valid / validate on three      *)
(* instances, two compiled JSONPath expressions (one with a regex filter),   *)
(* a compiled JMESPath expression, and lookup / compare / copy / dump /      *)
(* iterate on a shared const json.                                           *)
EXTENDS Naturals, Sequences, Json, TLC
CONSTANTS Big
VARIABLES c, phase
Streams == << <<"schema_valid_ok", "schema_valid_bad", "schema_validate_report">>,
             <<"jsonpath_plain", "jsonpath_regex", "jsonpath_paths">>,
             <<"jmespath_eval", "jmespath_sort">>,
             <<"json_lookup", "json_compare", "json_copy", "json_dump", "json_iterate">>,
             <<"schema_valid_ok", "jsonpath_regex", "jmespath_eval", "json_copy">>,
             <<"json_dump", "schema_walk", "jsonpath_plain", "json_compare">> >>
NS == Len(Streams)
Cases == { [n |-> 2, streams |-> <<Streams[i], Streams[j]>>, skew |-> <<0, k>>, reps |-> 40] : i \in 1..NS, j \in 1..NS, k \in {0, 3} } \cup
         { [n |-> 4, streams |-> [t \in 1..4 |-> Streams[((t + r) % NS) + 1]], skew |-> [t \in 1..4 |-> (t * r) % 4], reps |-> 40] : r \in 0..(NS - 1) } \cup
         { [n |-> 8, streams |-> [t \in 1..8 |-> Streams[((t * (r + 1)) % NS) + 1]], skew |-> [t \in 1..8 |-> t % 3], reps |-> 25] : r \in 0..(IF Big THEN 5 ELSE 2) } \cup
         { [n |-> 16, streams |-> [t \in 1..16 |-> Streams[((t + r) % NS) + 1]], skew |-> [t \in 1..16 |-> t % 5], reps |-> 15] : r \in 0..(IF Big THEN 5 ELSE 1) }
\* Artefact pool (spec/validation/C20_pool.json; the harness compiles every artefact once): operations are addressed by index
\* (taken modulo the pool size by the harness).  A window of W consecutive operations is run by every thread of the case - half
\* of the threads forwards, half backwards - so that every pool operation is executed by at least two threads at once.
PoolOps == 300      \* >= the number of pool operations (curated 55 + sampled, about 290 in all); indices wrap
W == 5
Fwd(k) == [j \in 1..W |-> (k * W) + j - 1]
Bwd(k) == [j \in 1..W |-> (k * W) + W - j]
PoolCases == { [n |-> n, streams |-> [t \in 1..n |-> IF t % 2 = 1 THEN Fwd(k) ELSE Bwd(k)], skew |-> [t \in 1..n |-> (t * sk) % 4], reps |-> IF n = 2 THEN 30 ELSE 15] :
               k \in 0..((PoolOps \div W) - 1), n \in (IF Big THEN {2, 4, 8} ELSE {2, 4}), sk \in (IF Big THEN {0, 1} ELSE {1}) }
Init == phase = 0 /\ c = [n |-> 0]
Next == phase = 0 /\ phase' = 1 /\ (c' \in Cases \/ c' \in PoolCases)      \* (two sets: their elements are not comparable)
Emit == phase = 1 => PrintT(ToJson(c))
=============================================================================
