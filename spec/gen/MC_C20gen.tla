----------------------------- MODULE MC_C20gen -----------------------------
(* C20 generator: thread counts x assignments of operation streams to        *)
(* threads x start skews.  Operations (named; implemented by the harness on  *)
(* the shared immutable artefacts): schema is_valid / validate on three      *)
(* instances, two compiled JSONPath expressions (one with a regex filter),   *)
(* a compiled JMESPath expression, and lookup / compare / copy / dump /      *)
(* iterate on a shared const json.                                           *)
EXTENDS Naturals, Sequences, Json, TLC
CONSTANTS Big
VARIABLES c, phase
Streams == << <<"schema_valid_ok", "schema_valid_bad", "schema_validate_report">>,
             <<"jsonpath_plain", "jsonpath_regex", "jsonpath_paths">>,
             <<"jmespath_eval", "jmespath_sort">>,
             <<"json_lookup", "json_compare", "json_copy", "json_dump", "json_iterate">>,
             <<"schema_valid_ok", "jsonpath_regex", "jmespath_eval", "json_copy">>,
             <<"json_dump", "schema_walk", "jsonpath_plain", "json_compare">> >>
NS == Len(Streams)
Cases == { [n |-> 2, streams |-> <<Streams[i], Streams[j]>>, skew |-> <<0, k>>, reps |-> 40] : i \in 1..NS, j \in 1..NS, k \in {0, 3} } \cup
         { [n |-> 4, streams |-> [t \in 1..4 |-> Streams[((t + r) % NS) + 1]], skew |-> [t \in 1..4 |-> (t * r) % 4], reps |-> 40] : r \in 0..(NS - 1) } \cup
         { [n |-> 8, streams |-> [t \in 1..8 |-> Streams[((t * (r + 1)) % NS) + 1]], skew |-> [t \in 1..8 |-> t % 3], reps |-> 25] : r \in 0..(IF Big THEN 5 ELSE 2) } \cup
         { [n |-> 16, streams |-> [t \in 1..16 |-> Streams[((t + r) % NS) + 1]], skew |-> [t \in 1..16 |-> t % 5], reps |-> 15] : r \in 0..(IF Big THEN 5 ELSE 1) }
Init == phase = 0 /\ c = [n |-> 0]
Next == phase = 0 /\ phase' = 1 /\ c' \in Cases
Emit == phase = 1 => PrintT(ToJson(c))
=============================================================================
