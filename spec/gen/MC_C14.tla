------------------------------ MODULE MC_C14 ------------------------------
(* C14 generators.                                                          *)
(*  Mode "str": every pointer string over PAlpha up to MaxLen: parse         *)
(*     verdict, tokens, and printed form (identity on valid pointers).      *)
(*  Mode "op":  every (document, token sequence, operation, create flag)    *)
(*     with the predicted outcome and document after the call.              *)
(*  Mode "flat": flatten / unflatten over the document universe.            *)
EXTENDS JsonPointer, Json, TLC
CONSTANTS Mode, MaxLen, PAlpha, MaxToks, Big
VARIABLES a, b, phase

T(s) == s
\* index tokens that do not fit the native index type: 2^64, 2^64-1, 2^32, 10^20-1 (array-index syntax, far out of range)
Two64 == <<49,56,52,52,54,55,52,52,48,55,51,55,48,57,53,53,49,54,49,54>>
Toks == { <<97>>, <<98>>, <<>>, <<48>>, <<49>>, <<50>>, <<51>>, <<48,49>>, <<48,48>>, <<45>>, <<43,49>>, <<45,49>>,
          <<49,120>>, <<126>>, <<47>>, <<97,47,98>>, <<109,126,110>>, <<233>>, <<122>>, <<49,48>>, <<32>>,
          Two64, <<49,56,52,52,54,55,52,52,48,55,51,55,48,57,53,53,49,54,49,53>>, <<52,50,57,52,57,54,55,50,57,54>>, <<57,57,57,57,57,57,57,57,57,57,57,57,57,57,57,57,57,57,57,57>> }
SmallToks == { <<97>>, <<>>, <<48>>, <<49>>, <<50>>, <<48,49>>, <<45>>, <<126>>, <<47>>, Two64 }
TokSeqs == {<<>>} \cup { <<t>> : t \in Toks }
           \cup { <<t, u>> : t \in (IF Big THEN Toks ELSE SmallToks), u \in Toks }
           \cup (IF MaxToks >= 3 THEN { <<t, u, w>> : t \in SmallToks, u \in SmallToks, w \in Toks } ELSE {})

K1 == { <<97>>, <<48>>, <<48,49>>, <<>> }
S0 == { JNull, JInt(1) }
L1 == S0 \cup ObjsOver(K1, S0) \cup ArrsOver(S0, 3)
L1s == { JInt(1), EmptyObj, EmptyArr, JObj([k \in {<<97>>} |-> JInt(1)]),
         JObj([k \in {<<48>>, <<>>} |-> IF k = <<>> THEN JNull ELSE JInt(1)]), JArr(<<JInt(1), JNull>>) }
L2 == L1 \cup ObjsOver({<<97>>, <<48>>}, L1s) \cup ArrsOver(L1s, 2)
\* (objects over z and e-acute: an ASCII / non-ASCII pair of member names)
NA == ObjsOver({<<122>>, <<233>>}, S0)
Docs == (IF Big THEN L2 ELSE L1 \cup ObjsOver({<<97>>}, L1s) \cup ArrsOver(L1s, 1)) \cup NA

\* documents for flatten: include keys needing escapes, exclude nothing (side condition evaluated by spec)
KF == { <<97>>, <<126>>, <<97,47,98>>, <<48>> }
F1 == S0 \cup {JStr(<<115>>)} \cup ObjsOver(KF, S0) \cup ArrsOver(S0, 2)
F1s == { JInt(1), EmptyObj, EmptyArr, JObj([k \in {<<126>>} |-> JNull]), JArr(<<JInt(1)>>), JObj([k \in {<<97>>, <<109,126,110>>} |-> JInt(1)]) }
FDocs == F1 \cup ObjsOver({<<97>>, <<47>>, <<49>>}, F1s) \cup ArrsOver(F1s, 2)

Ops == {"get", "add", "add_if_absent", "replace", "remove"}
NewVal == JInt(9)

RECURSIVE Strings(_)
Strings(n) == IF n = 0 THEN {<<>>} ELSE LET S == Strings(n - 1) IN S \cup { Append(s, c) : s \in {x \in S : Len(x) = n - 1}, c \in PAlpha }

Init == /\ phase = 0 /\ b = <<>>
        /\ a \in (CASE Mode = "str" -> Strings(MaxLen - 2) [] Mode = "op" -> Docs [] Mode = "flat" -> FDocs)
Next == /\ phase = 0 /\ phase' = 1 /\ a' = a
        /\ CASE Mode = "str" -> b' \in {<<>>} \cup { <<c>> : c \in PAlpha } \cup { <<c, e>> : c \in PAlpha, e \in PAlpha }
             [] Mode = "op" -> b' \in { <<ts, op, cr>> : ts \in TokSeqs, op \in Ops, cr \in BOOLEAN }
             [] Mode = "flat" -> b' = <<>>

WireRes(r) == IF IsOk(r) THEN <<"ok", Wire(r[2])>> ELSE <<"err">>
StrCase == LET s == a \o b  r == ParsePtr(s) IN
  [k |-> "str", s |-> s, ok |-> IsOk(r), toks |-> IF IsOk(r) THEN r[2] ELSE <<>>,
   back |-> IF IsOk(r) THEN PtrToString(r[2]) ELSE <<>>]
OpCase == LET ts == b[1]  op == b[2]  cr == b[3] IN
  [k |-> "op", d |-> Wire(a), toks |-> ts, s |-> PtrToString(ts), op |-> op, cr |-> cr, v |-> Wire(NewVal),
   r |-> IF op = "get" THEN WireRes(Get(a, ts)) ELSE WireRes(Edit(a, ts, op, NewVal, cr))]
FlatCase == [k |-> "flat", d |-> Wire(a), f |-> Wire(Flatten(a)), nik |-> NoIndexLikeKeys(a)]
Emit == phase = 1 => PrintT(ToJson(CASE Mode = "str" -> StrCase [] Mode = "op" -> OpCase [] Mode = "flat" -> FlatCase))

\* model-internal obligations (checked in the same run)
RoundTrip == (phase = 1 /\ Mode = "str") =>
               LET r == ParsePtr(a \o b) IN IsOk(r) => (PtrToString(r[2]) = a \o b /\ ParsePtr(PtrToString(r[2])) = r)
TokRoundTrip == (phase = 1 /\ Mode = "op") => ParsePtr(PtrToString(b[1])) = Ok(b[1])
=============================================================================
