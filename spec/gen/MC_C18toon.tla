---------------------------- MODULE MC_C18toon ----------------------------
(* C18 generator, TOON part.  Only the value space and the round-trip law   *)
(* of TOON are modelled (Csv.tla section 5), so a case is a JSON value, an  *)
(* option record and the spec's prediction "decode(encode(v)) = v".         *)
(* Universe:                                                                *)
(*  (tree)  every value of nesting depth <= 2 built from two primitives     *)
(*          (1 and the string "x,") with arrays of length <= 2 and objects  *)
(*          over the keys a, b, wrapped once more as [x], {a: x}, [1, x];   *)
(*          this crosses every TOON array form (inline, tabular, list,      *)
(*          array of arrays, mixed) with every position it can occur in;    *)
(*  (text)  a boundary-rich set of strings and keys placed in every         *)
(*          syntactic position: root, inline array cell (first / last),     *)
(*          object member value, key of a primitive / object / array        *)
(*          member, tabular cell (first / last column), tabular header key, *)
(*          list item, value / key of an object that is a list item.        *)
(*  (rows)  arrays of objects around the tabular form (see Rows below).      *)
EXTENDS Csv, Json, TLC
CONSTANTS Indents, ToonDelims, Markers, Deep
VARIABLES opt, v

A == <<97>>  B == <<98>>  KK == <<107>>  M == <<109>>  Z == <<122>>
S(cps) == JStr(cps)
One == JInt(1)
O1(k, x) == JObj([q \in {k} |-> x])
O2(k1, x1, k2, x2) == JObj([q \in {k1, k2} |-> IF q = k1 THEN x1 ELSE x2])
Arr1(x) == JArr(<<x>>)
Arr2(x, y) == JArr(<<x, y>>)

\* ---- (tree)
P0 == { One, S(<<120, 44>>) }
Layer(U) == U \cup { EmptyArr, EmptyObj } \cup { Arr1(x) : x \in U } \cup { Arr2(x, y) : x, y \in U }
                \cup { O1(A, x) : x \in U } \cup { O2(A, x, B, y) : x, y \in U }
U1 == Layer(P0)
U2 == Layer(U1)
Wrap(U) == { Arr1(x) : x \in U } \cup { O1(A, x) : x \in U } \cup { Arr2(One, x) : x \in U }
Tree(dummy) == IF Deep THEN U2 \cup Wrap(U2) ELSE U2

\* ---- (text)
StrSet ==
  { <<>>, <<97>>, <<32, 97>>, <<97, 32>>, <<97, 32, 98>>, <<97, 44, 98>>, <<97, 124, 98>>, <<97, 9, 98>>, <<97, 58, 98>>, <<97, 58, 32, 98>>,
    <<34>>, <<92>>, <<97, 10, 98>>, <<97, 13, 98>>, <<116, 114, 117, 101>>, <<102, 97, 108, 115, 101>>, <<110, 117, 108, 108>>,
    <<49>>, <<45, 49>>, <<49, 46, 53>>, <<49, 101, 51>>, <<48, 49>>, <<45>>, <<45, 32, 97>>, <<91, 49, 93>>, <<123, 97, 125>>, <<35>>,
    <<233>>, <<128512>>, <<92, 110>>, <<34, 97, 34>>, <<91, 50, 93, 58>>,
    <<1>>, <<97, 127>>,                                   \* control characters
    <<49, 101>>, <<49, 46>>, <<49, 45, 49>> }             \* start like a number
KeySet ==
  { <<97>>, <<>>, <<97, 32, 98>>, <<32, 97>>, <<97, 32>>, <<97, 44, 98>>, <<97, 58, 98>>, <<49>>, <<45>>, <<34>>, <<92>>, <<97, 10, 98>>, <<97, 9>>,
    <<233>>, <<97, 46, 98>>, <<91>>, <<97, 124, 98>>, <<116, 114, 117, 101>>, <<1>>, <<95, 97, 49>> }
Row(k1, x1, k2, x2) == O2(k1, x1, k2, x2)
StringCases(s) ==
  { S(s), Arr2(S(s), S(Z)), Arr2(S(Z), S(s)), O1(KK, S(s)),
    Arr2(Row(KK, S(s), M, One), Row(KK, S(s), M, One)),             \* tabular cell
    Arr2(Row(A, One, KK, S(s)), Row(A, One, KK, S(Z))),
    Arr2(S(s), EmptyArr),                                          \* list item
    Arr2(O1(KK, S(s)), One) }                                      \* member of a list-item object
KeyCases(k) ==
  { O1(k, One), O1(k, EmptyObj), O1(k, O1(A, One)), O1(k, Arr1(One)), O1(k, EmptyArr), O1(k, Arr1(O1(A, One))),
    Arr1(O2(k, One, M, One)),                                      \* tabular header key
    Arr2(O1(k, One), O1(k, S(Z))),
    Arr2(O1(k, One), One),                                         \* key of a list-item object
    O1(A, O1(k, One)) }
Text(dummy) == UNION { StringCases(s) : s \in StrSet } \cup UNION { KeyCases(k) : k \in KeySet \ {M} }

\* ---- (prim) every primitive kind of the JSON data model in every syntactic position of a primitive: null, booleans, integers
\* (zero, negative, large), and finite numbers with a fraction / exponent, written <<"dec", m, e>> = m * 10^e (the harness builds the
\* double nearest to that decimal and compares bit for bit): fractions below 1, negative, several digits, tiny and huge magnitudes
Dec(m, e) == <<"dec", m, e>>
PrimSet == { JNull, JBool(TRUE), JBool(FALSE), JInt(0), JInt(0 - 1), JInt(1000000), JInt(0 - 2147483647),
             Dec(5, 0 - 1), Dec(0 - 5, 0 - 1), Dec(25, 0 - 2), Dec(5, 0 - 2), Dec(15, 0 - 1), Dec(0 - 275, 0 - 2), Dec(1005, 0 - 1), Dec(1, 0 - 3),
             Dec(123456789, 0 - 3), Dec(1, 21), Dec(15, 0 - 8), Dec(25, 0 - 1),
             Dec(15, 19), Dec(602214076, 15), Dec(0 - 325, 16), Dec(25, 16), Dec(12345, 26), Dec(1, 17), Dec(123456789, 9) }      \* magnitudes >= 10^17 with and without fraction digits in the mantissa
PrimCases(p) ==
  { p, Arr2(p, One), Arr2(One, p), Arr1(p), O1(KK, p),
    Arr2(Row(KK, p, M, One), Row(KK, p, M, One)),                  \* tabular cell, first column
    Arr2(Row(A, One, KK, p), Row(A, One, KK, p)),                   \* tabular cell, last column
    Arr2(p, EmptyArr),                                             \* list item
    Arr2(O1(KK, p), One) }                                         \* member of a list-item object
Prim(dummy) == UNION { PrimCases(p) : p \in PrimSet }

\* ---- (rows) arrays of objects around the tabular form: rows over the same keys whose cells are primitives or nested values in any
\* row and column (a nested value in a LATER row must still prevent the tabular form), rows whose key sets differ, three rows, and the
\* same arrays as a member value and as a list item
Cells == { One, S(Z), JNull, EmptyArr, Arr1(One), EmptyObj, O1(A, One) }
PrimCells == { One, S(Z), JNull }
RowsAB == { O2(A, x, B, y) : x, y \in Cells }
PrimRowsAB == { O2(A, x, B, y) : x, y \in PrimCells }
RowArrays == { Arr2(r1, r2) : r1, r2 \in RowsAB }
             \cup { JArr(<<r1, r2, r3>>) : r1 \in {O2(A, One, B, One)}, r2 \in PrimRowsAB, r3 \in RowsAB }
             \cup { Arr2(O2(A, One, B, One), O1(A, One)), Arr2(O1(A, One), O2(A, One, B, One)), Arr2(O2(A, One, B, One), O2(A, One, M, One)),
                    Arr2(O2(A, One, B, One), EmptyObj), Arr2(O2(A, One, B, One), One), JArr(<<O2(A, One, B, One), O2(A, One, B, One), O1(A, One)>>) }
Rows(dummy) == RowArrays \cup { O1(KK, a) : a \in RowArrays } \cup { Arr2(One, a) : a \in { Arr2(r1, r2) : r1 \in PrimRowsAB, r2 \in RowsAB } }

Universe == Tree(0) \cup Text(0) \cup Prim(0) \cup Rows(0)
None == <<"none">>
Init == opt \in [indent : Indents, delimiter : ToonDelims, lm : Markers] /\ v = None
Next == v = None /\ v' \in Universe /\ opt' = opt

\* ---- emission: object members in ascending code-point order of the keys (for ojson this is the
\* insertion order, for json it is the order the container keeps anyway)
RECURSIVE KeyLess(_, _)
KeyLess(a, b) == IF a = <<>> THEN b # <<>> ELSE IF b = <<>> THEN FALSE
                 ELSE IF a[1] # b[1] THEN a[1] < b[1] ELSE KeyLess(Tail(a), Tail(b))
SortedKeys(f) == SortSeq(SetToSeq(DOMAIN f), KeyLess)
RECURSIVE SWire(_)
SWire(x) == CASE x[1] = "arr" -> <<"arr", [i \in 1..Len(x[2]) |-> SWire(x[2][i])]>>
              [] x[1] = "obj" -> LET ks == SortedKeys(x[2]) IN <<"obj", [i \in 1..Len(ks) |-> <<ks[i], SWire(x[2][ks[i]])>>]>>
              [] OTHER -> x

(* ---- known deviations of the pinned tree (notes/C18.md); trigger predicates over the value *)
IsPrim(x) == x[1] \notin {"arr", "obj"}
RECURSIVE SubValues(_)
SubValues(x) == {x} \cup (CASE x[1] = "arr" -> UNION { SubValues(x[2][i]) : i \in 1..Len(x[2]) }
                            [] x[1] = "obj" -> UNION { SubValues(x[2][k]) : k \in DOMAIN x[2] }
                            [] OTHER -> {})
Subs == SubValues(v)
Elems(a) == { a[2][i] : i \in 1..Len(a[2]) }
AllKeys == UNION { DOMAIN x[2] : x \in { y \in Subs : y[1] = "obj" } }
AllStrs == { x[2] : x \in { y \in Subs : y[1] = "str" } }
HasCtl(s) == \E i \in 1..Len(s) : s[i] = 127 \/ (s[i] < 32 /\ s[i] \notin {9, 10, 13})
NeedsEscape(s) == \E i \in 1..Len(s) : s[i] \in {34, 92, 10, 13, 9}
EdgeSpace(s) == s # <<>> /\ (s[1] = 32 \/ s[Len(s)] = 32)
\* complete decimal number syntax  -?digits[.digits][e[+-]digits]  as a small automaton
NumStep(st, c) ==
  CASE st = "s" /\ c = 45 -> "m"
    [] st \in {"s", "m", "i"} /\ c \in 48..57 -> "i"
    [] st = "i" /\ c = 46 -> "d"
    [] st \in {"d", "f"} /\ c \in 48..57 -> "f"
    [] st \in {"i", "f"} /\ c \in {101, 69} -> "e"
    [] st = "e" /\ c \in {43, 45} -> "g"
    [] st \in {"e", "g", "x"} /\ c \in 48..57 -> "x"
    [] OTHER -> "dead"
RECURSIVE NumRun(_, _, _)
NumRun(s, i, st) == IF i > Len(s) THEN st ELSE NumRun(s, i + 1, NumStep(st, s[i]))
IsNumber(s) == NumRun(s, 1, "s") \in {"i", "f", "x"}
NumChars(s) == \A i \in 1..Len(s) : s[i] \in (48..57) \cup {43, 45, 46, 101, 69}
StartsNumeric(s) == s # <<>> /\ NumChars(s) /\ (\E i \in 1..Len(s) : s[i] \in 48..57) /\ ~IsNumber(s)
Tabular(a) == /\ a[1] = "arr" /\ Len(a[2]) >= 1
              /\ \A x \in Elems(a) : x[1] = "obj" /\ DOMAIN x[2] = DOMAIN a[2][1][2] /\ DOMAIN x[2] # {}
                                     /\ \A k \in DOMAIN x[2] : IsPrim(x[2][k])
FirstKey(f) == SortedKeys(f)[1]

\* strings / keys with C0 controls other than TAB LF CR, or DEL: the encoder writes \uXXXX, \b, \f escapes that
\* the decoder rejects
DevControl == \E s \in AllStrs \cup AllKeys : HasCtl(s)
\* strings made of number characters that are not complete numbers ("1e", "1.", "1-1") are written bare and read
\* back as numbers
DevNumberLike == \E s \in AllStrs : StartsNumeric(s)
\* quoted key with escapes in front of an array header:  "a\tb"[1]: 1
DevQuotedKeyArray == \E x \in Subs : x[1] = "obj" /\ \E k \in DOMAIN x[2] : x[2][k][1] = "arr" /\ NeedsEscape(k)
\* quoted key in a tabular header {..}: escapes not undone, surrounding spaces trimmed
DevTabularKey == \E a \in Subs : Tabular(a) /\ \E k \in DOMAIN a[2][1][2] : NeedsEscape(k) \/ EdgeSpace(k)
\* tabular header whose only field is the empty key:  [2]{""}:
DevTabularEmptyKey == \E a \in Subs : Tabular(a) /\ DOMAIN a[2][1][2] = {<<>>}
\* an array element that is itself an array with a non-primitive element (list-item marker / indentation wrong)
DevNestedArray == \E a \in Subs : a[1] = "arr" /\ \E x \in Elems(a) : x[1] = "arr" /\ \E y \in Elems(x) : ~IsPrim(y)
\* a list-item object whose first member is an object
DevListItemObject == \E a \in Subs : a[1] = "arr" /\ \E x \in Elems(a) :
                        x[1] = "obj" /\ DOMAIN x[2] # {} /\ x[2][FirstKey(x[2])][1] = "obj"
DevIs(n) == CASE n = "toon-control-char" -> DevControl [] n = "toon-list-item-first-member-object" -> DevListItemObject
              [] n = "toon-nested-array-in-array" -> DevNestedArray [] n = "toon-number-like-string" -> DevNumberLike
              [] n = "toon-quoted-key-of-array" -> DevQuotedKeyArray [] n = "toon-tabular-header-key" -> DevTabularKey
              [] n = "toon-tabular-sole-empty-key" -> DevTabularEmptyKey
Dev == SelectSeq(<<"toon-control-char", "toon-list-item-first-member-object", "toon-nested-array-in-array",
                   "toon-number-like-string", "toon-quoted-key-of-array", "toon-tabular-header-key",
                   "toon-tabular-sole-empty-key">>, DevIs)

Emit == IF v = None THEN TRUE
        ELSE PrintT(ToJson([k |-> "toon", v |-> SWire(v), indent |-> opt.indent, delim |-> opt.delimiter, lm |-> opt.lm, dev |-> Dev]))
\* model-internal: every generated value is in the TOON value space and the options are well-formed
Law == v = None \/ (IsToonValue(v) /\ WellFormedToonOptions(opt))
=============================================================================
