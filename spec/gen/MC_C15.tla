------------------------------ MODULE MC_C15 ------------------------------
(* C15 generator: BFS over patches (sequences of operations) applied to a   *)
(* bounded set of documents.  Every reachable (document, patch) is a case   *)
(* with the RFC 6902 outcome predicted by JsonPatch!Apply.  With CheckImpl  *)
(* the same run model-checks that the undo-log machine refines Apply.       *)
EXTENDS JsonPatch, Json, TLC
CONSTANTS MaxOps, Big, CheckImpl, NonAscii
VARIABLES d0, ops

\* member names a, b - or z, e-acute (an ASCII / non-ASCII pair: orders differently under signed and unsigned byte comparison)
A == IF NonAscii THEN <<122>> ELSE <<97>>  B == IF NonAscii THEN <<233>> ELSE <<98>>  X == <<120>>
O1(k, v) == JObj([q \in {k} |-> v])
Docs == { EmptyObj, O1(A, JInt(1)), O1(A, O1(B, JInt(1))), O1(A, JArr(<<JInt(1), JInt(2)>>)),
          JArr(<<JInt(1), JInt(2)>>), EmptyArr, JInt(1), JObj([q \in {A, B} |-> IF q = A THEN JInt(1) ELSE JArr(<<JInt(1)>>)]) }
PathsS == { <<>>, <<A>>, <<B>>, <<A, B>>, <<A, <<48>>>>, <<A, <<DASH>>>>, <<<<48>>>>, <<<<DASH>>>> }
PathsB == PathsS \cup { <<A, <<49>>>>, <<A, <<50>>>>, <<<<49>>>>, <<X, A>>, <<A, <<48,49>>>>, BadPtr }
Paths == IF Big THEN PathsB ELSE PathsS
Vals == { JInt(1), JInt(2) } \cup (IF Big THEN { O1(B, JInt(1)) } ELSE {})
All == {"op", "path", "value", "from"}
Mk(op, p, f, v, has) == [op |-> op, path |-> p, from |-> f, value |-> v, has |-> has]
OpSet ==
  { Mk("add", p, <<>>, v, {"op", "path", "value"}) : p \in Paths, v \in Vals } \cup
  { Mk("remove", p, <<>>, JNull, {"op", "path"}) : p \in Paths } \cup
  { Mk("replace", p, <<>>, v, {"op", "path", "value"}) : p \in Paths, v \in Vals } \cup
  \* moving the whole document onto itself is left out: RFC 6902 does not say whether "remove the root" is defined
  ({ Mk("move", p, f, JNull, {"op", "path", "from"}) : p \in Paths, f \in Paths } \ { Mk("move", <<>>, <<>>, JNull, {"op", "path", "from"}) }) \cup
  { Mk("copy", p, f, JNull, {"op", "path", "from"}) : p \in Paths, f \in Paths } \cup
  { Mk("test", p, <<>>, v, {"op", "path", "value"}) : p \in Paths, v \in Vals } \cup
  \* malformed operations
  { Mk("bogus", <<A>>, <<>>, JInt(1), {"op", "path", "value"}),
    Mk("add", <<A>>, <<>>, JInt(1), {"op", "path"}),
    Mk("replace", <<A>>, <<>>, JInt(1), {"op", "path"}),
    Mk("test", <<A>>, <<>>, JInt(1), {"op", "path"}),
    Mk("move", <<B>>, <<A>>, JNull, {"op", "path"}),
    Mk("copy", <<B>>, <<A>>, JNull, {"op", "path"}),
    Mk("add", <<A>>, <<>>, JInt(1), {"op", "value"}),
    Mk("add", <<A>>, <<>>, JInt(1), {"path", "value"}),
    \* an element of the patch array that is not an object at all (its wire form is the value itself): malformed like any other
    Mk("nonobj", <<A>>, <<>>, JInt(5), {"op", "path", "value"}), Mk("nonobj", <<A>>, <<>>, JNull, {"op", "path", "value"}),
    Mk("nonobj", <<A>>, <<>>, JStr(<<97>>), {"op", "path", "value"}), Mk("nonobj", <<A>>, <<>>, JArr(<<>>), {"op", "path", "value"}) }

Init == d0 \in Docs /\ ops = <<>>
\* a patch is extended only while it still succeeds (a failed patch fails with every extension the same way)
Next == /\ Len(ops) < MaxOps /\ IsOk(Apply(d0, ops))
        /\ \E o \in OpSet : ops' = Append(ops, o)
        /\ d0' = d0

\* wire form of the patch as a JSON document
S(str) == CASE str = "add" -> <<97,100,100>> [] str = "remove" -> <<114,101,109,111,118,101>> [] str = "replace" -> <<114,101,112,108,97,99,101>>
            [] str = "move" -> <<109,111,118,101>> [] str = "copy" -> <<99,111,112,121>> [] str = "test" -> <<116,101,115,116>>
            [] str = "bogus" -> <<98,111,103,117,115>> [] str = "op" -> <<111,112>> [] str = "path" -> <<112,97,116,104>>
            [] str = "from" -> <<102,114,111,109>> [] str = "value" -> <<118,97,108,117,101>>
PtrStr(p) == IF p = BadPtr THEN <<97>> ELSE PtrToString(p)      \* "a": no leading slash = invalid pointer
OpWire(o) == IF o.op = "nonobj" THEN Wire(o.value) ELSE
             <<"obj", SelectSeq(<< <<S("op"), <<"str", S(o.op)>>>>, <<S("path"), <<"str", PtrStr(o.path)>>>>,
                                   <<S("from"), <<"str", PtrStr(o.from)>>>>, <<S("value"), Wire(o.value)>> >>,
                                LAMBDA kv : \E n \in o.has : S(n) = kv[1])>>
PatchWire == <<"arr", [i \in 1..Len(ops) |-> OpWire(ops[i])]>>
Res == Apply(d0, ops)
Emit == PrintT(ToJson([d |-> Wire(d0), patch |-> PatchWire, ok |-> IsOk(Res), r |-> IF IsOk(Res) THEN Wire(Res[2]) ELSE <<"none">>,
                      nops |-> Len(ops)]))
ImplRefines == CheckImpl => Refines(d0, ops)
=============================================================================
