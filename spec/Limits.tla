-------------------------------- MODULE Limits --------------------------------
(***************************************************************************)
(* Resource limits (property C10).                                         *)
(*  - Nesting: an input/value whose containers nest `depth` deep is        *)
(*    accepted iff depth <= max_nesting_depth, for every container-opening *)
(*    path of every format (each path is a way of opening one level).      *)
(*  - UBJSON max_items: a container announcing count items is refused iff  *)
(*    count > max_items.                                                   *)
(*  - Claimed lengths: a header may claim any length; with fewer bytes     *)
(*    supplied the input is truncated (error) and the memory requested     *)
(*    while finding that out is bounded by  K * supplied + C  - never by   *)
(*    the claim (Bound below; K, C deliberately loose).                    *)
(* A path is <<format, name, open bytes, close bytes>>; the nested input   *)
(* of depth d is open^d leaf close^d (BSON documents carry a byte length   *)
(* and are assembled by the harness from the same description).            *)
(***************************************************************************)
EXTENDS Naturals, Sequences

AcceptDepth(depth, limit) == depth <= limit
RefuseItems(count, maxitems) == count > maxitems
MemK == 64
MemC == 262144
Bound(supplied, produced) == MemK * (supplied + produced) + MemC

DecoderPaths == {
  <<"json", "array", <<91>>, <<93>>, <<49>>>>,
  <<"json", "object", <<123, 34, 97, 34, 58>>, <<125>>, <<49>>>>,
  <<"cbor", "array1", <<129>>, <<>>, <<1>>>>,
  <<"cbor", "array-indef", <<159>>, <<255>>, <<1>>>>,
  <<"cbor", "array-1byte-len", <<152, 1>>, <<>>, <<1>>>>,
  <<"cbor", "map1", <<161, 97, 97>>, <<>>, <<1>>>>,
  <<"cbor", "map-indef", <<191, 97, 97>>, <<255>>, <<1>>>>,
  <<"cbor", "tagged-array", <<193, 129>>, <<>>, <<1>>>>,
  <<"msgpack", "fixarray", <<145>>, <<>>, <<1>>>>,
  <<"msgpack", "array16", <<220, 0, 1>>, <<>>, <<1>>>>,
  <<"msgpack", "array32", <<221, 0, 0, 0, 1>>, <<>>, <<1>>>>,
  <<"msgpack", "fixmap", <<129, 161, 97>>, <<>>, <<1>>>>,
  <<"msgpack", "map16", <<222, 0, 1, 161, 97>>, <<>>, <<1>>>>,
  <<"msgpack", "map32", <<223, 0, 0, 0, 1, 161, 97>>, <<>>, <<1>>>>,
  <<"ubjson", "array", <<91>>, <<93>>, <<105, 1>>>>,
  <<"ubjson", "array-counted", <<91, 35, 105, 1>>, <<>>, <<105, 1>>>>,
  <<"ubjson", "object", <<123, 105, 1, 97>>, <<125>>, <<105, 1>>>>,
  <<"ubjson", "object-counted", <<123, 35, 105, 1, 105, 1, 97>>, <<>>, <<105, 1>>>>,
  <<"bson", "document", <<3>>, <<>>, <<>>>>,
  <<"bson", "array", <<4>>, <<>>, <<>>>> }
\* Completed sibling items: after each of them the decoder's depth accounting must be back where it was.  The case
\* input is  (outer indefinite/plain array open) siblings^K nest(depth-1) close ; its nesting depth is `depth`.
Siblings == {
  <<"json", "empty-array", <<91, 93, 44>>, <<91>>, <<93>>>>, <<"json", "nested-arrays", <<91, 91, 93, 93, 44>>, <<91>>, <<93>>>>, <<"json", "object", <<123, 34, 97, 34, 58, 91, 93, 125, 44>>, <<91>>, <<93>>>>,
  <<"cbor", "empty-array", <<128>>, <<159>>, <<255>>>>, <<"cbor", "indef-array", <<159, 255>>, <<159>>, <<255>>>>, <<"cbor", "map", <<161, 97, 97, 128>>, <<159>>, <<255>>>>,
  <<"cbor", "typed-array", <<216, 64, 65, 1>>, <<159>>, <<255>>>>, <<"cbor", "multi-dim-classical", <<216, 40, 130, 129, 1, 129, 0>>, <<159>>, <<255>>>>,
  <<"cbor", "multi-dim-typed", <<216, 40, 130, 129, 1, 216, 64, 65, 1>>, <<159>>, <<255>>>>, <<"cbor", "indef-string", <<127, 97, 97, 255>>, <<159>>, <<255>>>>,
  <<"cbor", "tagged-nested", <<193, 129, 129, 0>>, <<159>>, <<255>>>>,
  <<"msgpack", "empty-array", <<144>>, <<220, 0, 9>>, <<>>>>, <<"msgpack", "nested-arrays", <<145, 145, 0>>, <<220, 0, 9>>, <<>>>>, <<"msgpack", "map", <<129, 161, 97, 144>>, <<220, 0, 9>>, <<>>>>,
  <<"ubjson", "empty-array", <<91, 93>>, <<91>>, <<93>>>>, <<"ubjson", "counted-array", <<91, 35, 105, 1, 105, 1>>, <<91>>, <<93>>>>, <<"ubjson", "typed-array", <<91, 36, 105, 35, 105, 1, 1>>, <<91>>, <<93>>>>,
  <<"ubjson", "object", <<123, 105, 1, 97, 91, 93, 125>>, <<91>>, <<93>>>> }
EncoderFormats == {"cbor", "msgpack", "ubjson", "bson", "json"}
EncoderKinds == {"array", "object", "array-undeclared", "object-undeclared"}

\* headers claiming a large length, followed by a few bytes only
BE4(n3, n2, n1, n0) == <<n3, n2, n1, n0>>
Claims == {
  <<"cbor", "bstr32", <<90, 127, 255, 255, 255>>>>, <<"cbor", "tstr32", <<122, 127, 255, 255, 255>>>>, <<"cbor", "bstr64", <<91, 0, 0, 0, 1, 0, 0, 0, 0>>>>,
  <<"cbor", "array32", <<154, 255, 255, 255, 255>>>>, <<"cbor", "map32", <<186, 127, 255, 255, 255>>>>, <<"cbor", "array64", <<155, 127, 255, 255, 255, 255, 255, 255, 255>>>>,
  <<"cbor", "bstr16", <<89, 255, 255>>>>, <<"cbor", "typed-array", <<216, 64, 90, 127, 255, 255, 255>>>>,
  <<"msgpack", "bin32", <<198, 127, 255, 255, 255>>>>, <<"msgpack", "str32", <<219, 127, 255, 255, 255>>>>, <<"msgpack", "array32", <<221, 255, 255, 255, 255>>>>,
  <<"msgpack", "map32", <<223, 127, 255, 255, 255>>>>, <<"msgpack", "ext32", <<201, 127, 255, 255, 255, 1>>>>, <<"msgpack", "str16", <<218, 255, 255>>>>,
  <<"ubjson", "string-l", <<83, 108, 127, 255, 255, 255>>>>, <<"ubjson", "array-count-l", <<91, 35, 108, 0, 255, 255, 255>>>>, <<"ubjson", "typed-array-l", <<91, 36, 85, 35, 108, 0, 255, 255, 255>>>>,
  <<"ubjson", "object-count-l", <<123, 35, 108, 0, 255, 255, 255>>>>, <<"ubjson", "hpn-l", <<72, 108, 127, 255, 255, 255>>>>, <<"ubjson", "string-L", <<83, 76, 0, 0, 0, 1, 0, 0, 0, 0>>>>,
  <<"bson", "doc-len", <<255, 255, 255, 127>>>>, <<"bson", "string-len", <<20, 0, 0, 0, 2, 97, 0, 255, 255, 255, 127>>>>, <<"bson", "binary-len", <<20, 0, 0, 0, 5, 97, 0, 255, 255, 255, 127, 0>>>> }
=============================================================================
