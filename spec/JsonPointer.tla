----------------------------- MODULE JsonPointer -----------------------------
(***************************************************************************)
(* RFC 6901 JSON Pointer over the JsonValue data model, plus the editing   *)
(* operations jsoncons documents on top of it (add, add_if_absent,         *)
(* replace, remove, with and without create_if_missing).  Written from     *)
(* RFC 6901 sections 3-5, RFC 6902 section 4.1 (add semantics, the "-"     *)
(* token) and doc/ref/jsonpointer/*.md.                                    *)
(*                                                                         *)
(* Pointer strings are sequences of code points.  Every operation is a     *)
(* total function returning  <<"ok", ...>>  or  <<"err">> ; a failed edit   *)
(* returns no document, i.e. the document is unchanged by definition.      *)
(***************************************************************************)
EXTENDS JsonValue

SLASH == 47  TILDE == 126  DASH == 45

Ok(x) == <<"ok", x>>
Err == <<"err">>
IsOk(r) == r[1] = "ok"

-----------------------------------------------------------------------------
(* Section 3 syntax:  json-pointer = *( "/" reference-token );             *)
(* reference-token = *( unescaped / escaped );  escaped = "~" ( "0" / "1" )*)
(* Section 4: "~1" -> "/" first, then "~0" -> "~".                          *)

RECURSIVE ParseFrom(_, _, _, _, _)
ParseFrom(s, i, toks, cur, esc) ==
  IF i > Len(s) THEN (IF esc THEN Err ELSE Ok(Append(toks, cur)))
  ELSE LET c == s[i] IN
    IF esc THEN (IF c = 48 THEN ParseFrom(s, i + 1, toks, Append(cur, TILDE), FALSE)
                 ELSE IF c = 49 THEN ParseFrom(s, i + 1, toks, Append(cur, SLASH), FALSE)
                 ELSE Err)
    ELSE IF c = TILDE THEN ParseFrom(s, i + 1, toks, cur, TRUE)
    ELSE IF c = SLASH THEN ParseFrom(s, i + 1, Append(toks, cur), <<>>, FALSE)
    ELSE ParseFrom(s, i + 1, toks, Append(cur, c), FALSE)

ParsePtr(s) == IF s = <<>> THEN Ok(<<>>)
               ELSE IF s[1] # SLASH THEN Err
               ELSE ParseFrom(s, 2, <<>>, <<>>, FALSE)

RECURSIVE EscTok(_, _)
EscTok(t, i) == IF i > Len(t) THEN <<>>
                ELSE (IF t[i] = TILDE THEN <<TILDE, 48>> ELSE IF t[i] = SLASH THEN <<TILDE, 49>> ELSE <<t[i]>>) \o EscTok(t, i + 1)
RECURSIVE PtrToString(_)
PtrToString(toks) == IF toks = <<>> THEN <<>> ELSE <<SLASH>> \o EscTok(Head(toks), 1) \o PtrToString(Tail(toks))

-----------------------------------------------------------------------------
(* Section 4, array index:  array-index = %x30 / ( %x31-39 *(%x30-39) )    *)
IsIndex(t) == \/ t = <<48>>
              \/ (Len(t) >= 1 /\ t[1] >= 49 /\ t[1] <= 57 /\ \A i \in 1..Len(t) : t[i] >= 48 /\ t[i] <= 57)
RECURSIVE IdxVal(_, _, _)
IdxVal(t, i, acc) == IF i > Len(t) THEN acc ELSE IdxVal(t, i + 1, acc * 10 + (t[i] - 48))
\* arrays in any bounded universe are far shorter than 10^6; longer index tokens exceed every array
IndexOf(t) == IF Len(t) > 6 THEN 1000000 ELSE IdxVal(t, 1, 0)

-----------------------------------------------------------------------------
(* Section 4 evaluation *)
RECURSIVE Get(_, _)
Get(d, toks) ==
  IF toks = <<>> THEN Ok(d)
  ELSE LET t == Head(toks) IN
    IF IsObj(d) THEN (IF t \in DOMAIN d[2] THEN Get(d[2][t], Tail(toks)) ELSE Err)
    ELSE IF IsArr(d) THEN (IF IsIndex(t) /\ IndexOf(t) < Len(d[2]) THEN Get(d[2][IndexOf(t) + 1], Tail(toks)) ELSE Err)
    ELSE Err
PtrContains(d, toks) == IsOk(Get(d, toks))

-----------------------------------------------------------------------------
(* Edits at the last reference token of a location (parent already found)  *)
EditLast(d, t, op, v, create) ==
  IF IsObj(d) THEN
    CASE op = "add" -> Ok(JObj(Put(d[2], t, v)))
      [] op = "add_if_absent" -> IF t \in DOMAIN d[2] THEN Err ELSE Ok(JObj(Put(d[2], t, v)))
      [] op = "replace" -> IF t \in DOMAIN d[2] \/ create THEN Ok(JObj(Put(d[2], t, v))) ELSE Err
      [] op = "remove" -> IF t \in DOMAIN d[2] THEN Ok(JObj(Del(d[2], t))) ELSE Err
  ELSE IF IsArr(d) THEN
    CASE op \in {"add", "add_if_absent"} ->
           IF t = <<DASH>> THEN Ok(JArr(Append(d[2], v)))
           ELSE IF IsIndex(t) /\ IndexOf(t) <= Len(d[2]) THEN Ok(JArr(InsertAt0(d[2], IndexOf(t), v)))
           ELSE Err
      [] op = "replace" -> IF IsIndex(t) /\ IndexOf(t) < Len(d[2]) THEN Ok(JArr(ReplaceAt0(d[2], IndexOf(t), v))) ELSE Err
      [] op = "remove" -> IF IsIndex(t) /\ IndexOf(t) < Len(d[2]) THEN Ok(JArr(RemoveAt0(d[2], IndexOf(t)))) ELSE Err
  ELSE Err

(* Edit(d, toks, op, v, create): navigate to the parent of the addressed    *)
(* location (creating missing object members as empty objects when create   *)
(* is set - doc/ref/jsonpointer: create_if_missing), then edit.             *)
RECURSIVE Edit(_, _, _, _, _)
Edit(d, toks, op, v, create) ==
  IF toks = <<>> THEN (IF op \in {"remove", "add_if_absent"} THEN Err ELSE Ok(v))   \* whole-document location: always exists, cannot be removed
  ELSE IF Len(toks) = 1 THEN EditLast(d, toks[1], op, v, create)
  ELSE LET t == Head(toks) IN
    IF IsObj(d) THEN
      IF t \in DOMAIN d[2]
      THEN LET r == Edit(d[2][t], Tail(toks), op, v, create) IN IF IsOk(r) THEN Ok(JObj(Put(d[2], t, r[2]))) ELSE Err
      ELSE IF create
           THEN LET r == Edit(EmptyObj, Tail(toks), op, v, create) IN IF IsOk(r) THEN Ok(JObj(Put(d[2], t, r[2]))) ELSE Err
           ELSE Err
    ELSE IF IsArr(d) THEN
      IF IsIndex(t) /\ IndexOf(t) < Len(d[2])
      THEN LET r == Edit(d[2][IndexOf(t) + 1], Tail(toks), op, v, create) IN
           IF IsOk(r) THEN Ok(JArr(ReplaceAt0(d[2], IndexOf(t), r[2]))) ELSE Err
      ELSE Err
    ELSE Err

-----------------------------------------------------------------------------
(* flatten / unflatten (doc/ref/jsonpointer/flatten.md): a flattened        *)
(* document maps the pointer string of every leaf (scalar, empty array,     *)
(* empty object) to that leaf.                                              *)
IdxTok(n) == IF n < 10 THEN <<48 + n>> ELSE <<48 + (n \div 10), 48 + (n % 10)>>     \* decimal, no leading zeros (n < 100)
RECURSIVE Leaves(_, _)
Leaves(d, prefix) ==   \* set of <<reference tokens, leaf>>
  IF IsObj(d) /\ DOMAIN d[2] # {} THEN UNION { Leaves(d[2][k], Append(prefix, k)) : k \in DOMAIN d[2] }
  ELSE IF IsArr(d) /\ d[2] # <<>> THEN UNION { Leaves(d[2][i], Append(prefix, IdxTok(i - 1))) : i \in 1..Len(d[2]) }
  ELSE { <<prefix, d>> }
Flatten(d) == LET ls == Leaves(d, <<>>) IN
  JObj([p \in {PtrToString(x[1]) : x \in ls} |-> (CHOOSE x \in ls : PtrToString(x[1]) = p)[2]])

\* member names that look like array indices make unflatten ambiguous (property side condition)
RECURSIVE NoIndexLikeKeys(_)
NoIndexLikeKeys(d) ==
  CASE IsObj(d) -> \A k \in DOMAIN d[2] : ~IsIndex(k) /\ NoIndexLikeKeys(d[2][k])
  [] IsArr(d) -> \A i \in 1..Len(d[2]) : NoIndexLikeKeys(d[2][i])
  [] OTHER -> TRUE
=============================================================================
