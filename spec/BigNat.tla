-------------------------------- MODULE BigNat --------------------------------
(***************************************************************************)
(* Natural numbers of unbounded size for TLC (whose own integers are 32    *)
(* bit): little-endian sequences of base-10^4 limbs without leading zero   *)
(* limbs (<<>> = 0), built only with Append / \o / SubSeq (real tuples).   *)
(* Schoolbook arithmetic - an oracle for true integer arithmetic that is   *)
(* independent of the 2^32/2^64-limb implementation under test (C04).      *)
(* Decimal strings (sequences of digit code units, most significant first) *)
(* group trivially into limbs.                                             *)
(***************************************************************************)
EXTENDS Naturals, Sequences

B == 10000
Zero == <<>>
RECURSIVE Norm(_)
Norm(a) == IF a # <<>> /\ a[Len(a)] = 0 THEN Norm(SubSeq(a, 1, Len(a) - 1)) ELSE a
FromSmall(n) == IF n = 0 THEN <<>> ELSE IF n < B THEN <<n>> ELSE IF n < B * B THEN <<n % B, n \div B>> ELSE <<n % B, (n \div B) % B, n \div (B * B)>>

\* -1 / 0 / 1 as 0 / 1 / 2 (Naturals only): Cmp(a,b) = 0 if a<b, 1 if a=b, 2 if a>b
RECURSIVE CmpFrom(_, _, _)
CmpFrom(a, b, i) == IF i = 0 THEN 1 ELSE IF a[i] < b[i] THEN 0 ELSE IF a[i] > b[i] THEN 2 ELSE CmpFrom(a, b, i - 1)
Cmp(a, b) == IF Len(a) < Len(b) THEN 0 ELSE IF Len(a) > Len(b) THEN 2 ELSE CmpFrom(a, b, Len(a))
Lt(a, b) == Cmp(a, b) = 0
Le(a, b) == Cmp(a, b) # 2
Eq(a, b) == a = b

RECURSIVE AddFrom(_, _, _, _, _)
AddFrom(a, b, i, carry, acc) ==
  IF i > Len(a) /\ i > Len(b) THEN (IF carry = 0 THEN acc ELSE Append(acc, carry))
  ELSE LET x == (IF i <= Len(a) THEN a[i] ELSE 0) + (IF i <= Len(b) THEN b[i] ELSE 0) + carry IN
       AddFrom(a, b, i + 1, x \div B, Append(acc, x % B))
Add(a, b) == AddFrom(a, b, 1, 0, <<>>)

\* a - b for a >= b
RECURSIVE SubFrom(_, _, _, _, _)
SubFrom(a, b, i, borrow, acc) ==
  IF i > Len(a) THEN Norm(acc)
  ELSE LET y == (IF i <= Len(b) THEN b[i] ELSE 0) + borrow IN
       IF a[i] >= y THEN SubFrom(a, b, i + 1, 0, Append(acc, a[i] - y))
       ELSE SubFrom(a, b, i + 1, 1, Append(acc, (a[i] + B) - y))
Sub(a, b) == SubFrom(a, b, 1, 0, <<>>)

\* a * d for a small d (0 <= d < 10^4)
RECURSIVE MulSmallFrom(_, _, _, _, _)
MulSmallFrom(a, d, i, carry, acc) ==
  IF i > Len(a) THEN (IF carry = 0 THEN acc ELSE Append(acc, carry))
  ELSE LET x == (a[i] * d) + carry IN MulSmallFrom(a, d, i + 1, x \div B, Append(acc, x % B))
MulSmall(a, d) == IF d = 0 \/ a = <<>> THEN <<>> ELSE MulSmallFrom(a, d, 1, 0, <<>>)
\* shift by k limbs
RECURSIVE Zeros(_)
Zeros(k) == IF k = 0 THEN <<>> ELSE Append(Zeros(k - 1), 0)
ShiftLimbs(a, k) == IF a = <<>> THEN <<>> ELSE Zeros(k) \o a
RECURSIVE MulFrom(_, _, _, _)
MulFrom(a, b, j, acc) == IF j > Len(b) THEN acc ELSE MulFrom(a, b, j + 1, Add(acc, ShiftLimbs(MulSmall(a, b[j]), j - 1)))
Mul(a, b) == IF a = <<>> \/ b = <<>> THEN <<>> ELSE MulFrom(a, b, 1, <<>>)

\* a div d, a mod d for a small d (1 <= d < 10^4): <<quotient, remainder>>
RECURSIVE DivSmallFrom(_, _, _, _, _)
DivSmallFrom(a, d, i, rem, acc) ==   \* most significant limb first; acc collects quotient limbs most significant first
  IF i = 0 THEN <<acc, rem>>
  ELSE LET x == (rem * B) + a[i] IN DivSmallFrom(a, d, i - 1, x % d, Append(acc, x \div d))
RECURSIVE Rev(_)
Rev(s) == IF s = <<>> THEN <<>> ELSE Append(Rev(Tail(s)), Head(s))
DivSmall(a, d) == LET r == DivSmallFrom(a, d, Len(a), 0, <<>>) IN <<Norm(Rev(r[1])), r[2]>>

RECURSIVE Pow2(_)
Pow2(k) == IF k = 0 THEN <<1>> ELSE MulSmall(Pow2(k - 1), 2)
RECURSIVE PowSmall(_, _)
PowSmall(d, k) == IF k = 0 THEN <<1>> ELSE MulSmall(PowSmall(d, k - 1), d)

\* decimal digit code units (most significant first, no sign) <-> BigNat
RECURSIVE FromDecFrom(_, _, _)
FromDecFrom(ds, i, acc) == IF i > Len(ds) THEN acc ELSE FromDecFrom(ds, i + 1, Add(MulSmall(acc, 10), FromSmall(ds[i] - 48)))
FromDec(ds) == FromDecFrom(ds, 1, <<>>)
Limb4(n) == <<48 + (n \div 1000), 48 + ((n \div 100) % 10), 48 + ((n \div 10) % 10), 48 + (n % 10)>>
RECURSIVE StripLeadZeros(_)
StripLeadZeros(ds) == IF Len(ds) > 1 /\ ds[1] = 48 THEN StripLeadZeros(Tail(ds)) ELSE ds
RECURSIVE ToDecFrom(_, _)
ToDecFrom(a, i) == IF i = 0 THEN <<>> ELSE Limb4(a[i]) \o ToDecFrom(a, i - 1)
ToDec(a) == IF a = <<>> THEN <<48>> ELSE StripLeadZeros(ToDecFrom(a, Len(a)))

\* value of a digit string in a small base (hex: 16, bytes: 256); digits given as naturals, most significant first
RECURSIVE FromBaseFrom(_, _, _, _)
FromBaseFrom(ds, base, i, acc) == IF i > Len(ds) THEN acc ELSE FromBaseFrom(ds, base, i + 1, Add(MulSmall(acc, base), FromSmall(ds[i])))
FromBase(ds, base) == FromBaseFrom(ds, base, 1, <<>>)
\* big-endian bytes of a (no leading zero byte; <<>> for 0)
RECURSIVE ToBytesAcc(_, _)
ToBytesAcc(a, acc) == IF a = <<>> THEN acc ELSE LET qr == DivSmall(a, 256) IN ToBytesAcc(qr[1], <<qr[2]>> \o acc)
ToBytes(a) == ToBytesAcc(a, <<>>)
\* number of bits
RECURSIVE BitLenAcc(_, _)
BitLenAcc(a, n) == IF a = <<>> THEN n ELSE BitLenAcc(DivSmall(a, 2)[1], n + 1)
BitLen(a) == BitLenAcc(a, 0)
=============================================================================
