------------------------------ MODULE JsonPath ------------------------------
(***************************************************************************)
(* jsoncons JSONPath over the JsonValue data model: an evaluator producing *)
(* lists of (normalized path, value) nodes, the result options nodups and  *)
(* sort, json_replace, and an un-parser rendering abstract syntax trees to *)
(* expression strings in dot and bracket notation.                         *)
(*                                                                         *)
(* Written from the governing documents, not from the implementation:      *)
(*   [doc]  /repo/doc/ref/jsonpath/*.md  (jsonpath.md, json_query.md,      *)
(*          json_replace.md, result_options.md, jsonpath_grammer.md,       *)
(*          jsoncons-jsonpath-abnf.md, functions/length.md)                *)
(*   [rfc]  RFC 9535 where it agrees with [doc]/[data]: 2.3.1 name,        *)
(*          2.3.2 wildcard, 2.3.3 index, 2.3.4 slice (2.3.4.2.2            *)
(*          normalisation), 2.3.5 filter, 2.5.1 child segment, 2.5.2       *)
(*          descendant segment, 2.7 normalized paths                       *)
(*   [data] /repo/test/jsonpath/input/test_data/*.json as reference data   *)
(*          for what [doc] leaves to examples (parent operator, unions of  *)
(*          paths, truthiness of filter operands, missing = null,          *)
(*          traversal order of recursive descent)                          *)
(* Each operator names the clause it encodes.                              *)
(*                                                                         *)
(* Where the documents are silent or disagree the evaluator yields the     *)
(* pseudo node DCMark ("don't care"): the case is outside the decided part *)
(* of the property and its observation is not compared.  Where only the    *)
(* ORDER of the result is not determined (members of an object with two or *)
(* more members were enumerated: RFC 9535 2.3.2.2 / 2.5.2.2 leave that     *)
(* order open and [doc] does not fix it) it yields UOMark and the result   *)
(* is compared as a multiset.                                              *)
(***************************************************************************)
EXTENDS JsonValue, Integers

-----------------------------------------------------------------------------
(* Abstract syntax.                                                        *)
(*  query    : <<rel, segments>>,  rel \in {"root" ($), "cur" (@)}         *)
(*  segment  : <<"child", sels>>   [s1,s2,...] / .name / .*                *)
(*             <<"desc", sels>>    ..[s1,...]  / ..name / ..*              *)
(*             <<"parent">>        ^   ([data] parent-operator.json)       *)
(*  selector : <<"name", cps>>  <<"idx", i>>  <<"wild">>                   *)
(*             <<"slice", start, stop, step>>  with bounds                 *)
(*                 <<"abs">> | <<"v", n>> | <<"max">> | <<"min">>          *)
(*                 (max/min = +-(2^63-1), written out in full by Show)     *)
(*             <<"filter", fexpr>>                                         *)
(*             <<"path", rel, segments>>   union of paths ([data] union.json*)
(*                 "JSONPath union of multiple different paths")           *)
(*  fexpr    : <<"lit", jsonvalue>>  <<"q", rel, segments>>                *)
(*             <<"len", fexpr>>           length(x)  [doc] functions/length *)
(*             <<"lenp", rel, segments>>  x.length   [doc] jsonpath.md      *)
(*             <<"cmp", op, a, b>>  op \in == != < <= > >=                  *)
(*             <<"and", a, b>>  <<"or", a, b>>  <<"not", a>>               *)
(*           functions family (section "Built-in functions and arithmetic"):*)
(*             <<"fn", name, args>>   name(arg, ...)  [doc] functions/*.md  *)
(*             <<"fq", fexpr, segments>>  a function call followed by path  *)
(*                 segments: tokenize(@.s, ',')[0]  [doc] tokenize.md       *)
(*             <<"neg", a>>  unary minus     <<"ar", op, a, b>>  op \in     *)
(*                 + - * / %   [doc] grammar.md unary-/binary-expression   *)
(*  A whole expression may also be a function call followed by segments    *)
(*  ([doc] length.md, [data] functions.json): see TopEval.                 *)
(***************************************************************************)
Child(sels) == <<"child", sels>>
Desc(sels) == <<"desc", sels>>
Parent == <<"parent">>
SName(k) == <<"name", k>>
SIdx(i) == <<"idx", i>>
SWild == <<"wild">>
SSlice(s, e, st) == <<"slice", s, e, st>>
SFilter(f) == <<"filter", f>>
SPath(rel, segs) == <<"path", rel, segs>>
BAbs == <<"abs">>
BV(n) == <<"v", n>>
BMax == <<"max">>
BMin == <<"min">>
FLit(v) == <<"lit", v>>
FQ(rel, segs) == <<"q", rel, segs>>
FLen(e) == <<"len", e>>
FLenP(rel, segs) == <<"lenp", rel, segs>>
FCmp(op, a, b) == <<"cmp", op, a, b>>
FAnd(a, b) == <<"and", a, b>>
FOr(a, b) == <<"or", a, b>>
FNot(a) == <<"not", a>>
FFn(name, args) == <<"fn", name, args>>
FFq(e, segs) == <<"fq", e, segs>>
FNeg(a) == <<"neg", a>>
FAr(op, a, b) == <<"ar", op, a, b>>

-----------------------------------------------------------------------------
(* Nodes.  A location is a sequence of path elements <<"n", name>> or      *)
(* <<"i", index>> (index >= 0): exactly the information of a normalized    *)
(* path (RFC 9535 2.7: only name and non-negative index selectors).        *)
PName(k) == <<"n", k>>
PIdx(i) == <<"i", i>>
MkNode(p, v) == <<"node", p, v>>
IsNode(n) == n[1] = "node"
DCMark == <<"DC">>
UOMark == <<"UO">>
NPath(n) == n[2]
NVal(n) == n[3]

\* lexicographic order on code point sequences (= byte order of their UTF-8 forms)
RECURSIVE CpsLess(_, _, _)
CpsLess(a, b, i) == IF i > Len(b) THEN FALSE
                    ELSE IF i > Len(a) THEN TRUE
                    ELSE IF a[i] < b[i] THEN TRUE
                    ELSE IF a[i] > b[i] THEN FALSE
                    ELSE CpsLess(a, b, i + 1)
KeyLess(a, b) == CpsLess(a, b, 1)
RECURSIVE SortKeys(_)
SortKeys(S) == IF S = {} THEN <<>>
               ELSE LET m == CHOOSE x \in S : \A y \in S : x = y \/ KeyLess(x, y) IN <<m>> \o SortKeys(S \ {m})

(* Resolution of a location against a document (RFC 9535 2.7: a normalized *)
(* path identifies exactly one node).  <<"none">> when it addresses nothing.*)
RECURSIVE Resolve(_, _)
Resolve(d, p) ==
  IF p = <<>> THEN <<"some", d>>
  ELSE LET e == Head(p) IN
    IF e[1] = "n" THEN (IF IsObj(d) /\ e[2] \in DOMAIN d[2] THEN Resolve(d[2][e[2]], Tail(p)) ELSE <<"none">>)
    ELSE (IF IsArr(d) /\ e[2] < Len(d[2]) THEN Resolve(d[2][e[2] + 1], Tail(p)) ELSE <<"none">>)

(* children of a node, in array order / in ascending member-name order (a   *)
(* canonical choice; whenever it matters UOMark is produced alongside)      *)
RECURSIVE ArrKids(_, _, _)
ArrKids(p, s, i) == IF i > Len(s) THEN <<>> ELSE <<MkNode(Append(p, PIdx(i - 1)), s[i])>> \o ArrKids(p, s, i + 1)
RECURSIVE ObjKids(_, _, _, _)
ObjKids(p, f, ks, i) == IF i > Len(ks) THEN <<>> ELSE <<MkNode(Append(p, PName(ks[i])), f[ks[i]])>> \o ObjKids(p, f, ks, i + 1)
Kids(n) == LET v == NVal(n) IN
  IF IsArr(v) THEN ArrKids(NPath(n), v[2], 1)
  ELSE IF IsObj(v) THEN ObjKids(NPath(n), v[2], SortKeys(DOMAIN v[2]), 1)
  ELSE <<>>
UOIf(v) == IF IsObj(v) /\ Cardinality(DOMAIN v[2]) >= 2 THEN <<UOMark>> ELSE <<>>

-----------------------------------------------------------------------------
(* RFC 9535 2.3.4.2.2 slice normalisation, verbatim:                        *)
(*   Normalize(i,len) = IF i >= 0 THEN i ELSE len + i                       *)
(*   Bounds: step >= 0: lower = MIN(MAX(n_start,0),len), upper = MIN(MAX(n_end,0),len) *)
(*           step <  0: upper = MIN(MAX(n_start,-1),len-1), lower = MIN(MAX(n_end,-1),len-1) *)
(*   step > 0: i = lower; WHILE i < upper: select; i += step                *)
(*   step < 0: i = upper; WHILE lower < i: select; i += step                *)
(* defaults (2.3.4.2.1): step 1; step >= 0: start 0, end len;               *)
(*                       step < 0: start len-1, end -len-1.                 *)
(* step = 0 selects nothing in the RFC and is a compile error in [data]     *)
(* slice.json; it is never generated.                                       *)
(* The extremes +-(2^63-1) are evaluated as +-Huge: for every array shorter *)
(* than Huge the clamped bounds and the set of visited indices are the same.*)
Huge == 1000000
BVal(b) == CASE b[1] = "v" -> b[2] [] b[1] = "max" -> Huge [] b[1] = "min" -> 0 - Huge
Min2(a, b) == IF a < b THEN a ELSE b
Max2(a, b) == IF a > b THEN a ELSE b
Norm(i, len) == IF i >= 0 THEN i ELSE len + i
SliceStep(st) == IF st[1] = "abs" THEN 1 ELSE BVal(st)
SliceLower(len, s, e, st) ==
  LET step == SliceStep(st)
      start == IF s[1] = "abs" THEN (IF step >= 0 THEN 0 ELSE len - 1) ELSE BVal(s)
      end == IF e[1] = "abs" THEN (IF step >= 0 THEN len ELSE (0 - len) - 1) ELSE BVal(e)
  IN IF step >= 0 THEN Min2(Max2(Norm(start, len), 0), len) ELSE Min2(Max2(Norm(end, len), 0 - 1), len - 1)
SliceUpper(len, s, e, st) ==
  LET step == SliceStep(st)
      start == IF s[1] = "abs" THEN (IF step >= 0 THEN 0 ELSE len - 1) ELSE BVal(s)
      end == IF e[1] = "abs" THEN (IF step >= 0 THEN len ELSE (0 - len) - 1) ELSE BVal(e)
  IN IF step >= 0 THEN Min2(Max2(Norm(end, len), 0), len) ELSE Min2(Max2(Norm(start, len), 0 - 1), len - 1)
RECURSIVE UpFrom(_, _, _)
UpFrom(i, upper, step) == IF i < upper THEN <<i>> \o UpFrom(i + step, upper, step) ELSE <<>>
RECURSIVE DownFrom(_, _, _)
DownFrom(i, lower, step) == IF lower < i THEN <<i>> \o DownFrom(i + step, lower, step) ELSE <<>>
SliceIdx(len, s, e, st) ==      \* the selected 0-based indices, in selection order
  LET step == SliceStep(st) IN
  IF step > 0 THEN UpFrom(SliceLower(len, s, e, st), SliceUpper(len, s, e, st), step)
  ELSE IF step < 0 THEN DownFrom(SliceUpper(len, s, e, st), SliceLower(len, s, e, st), step)
  ELSE <<>>

(* An independent second definition (the familiar sequence-slicing rule of  *)
(* which RFC 9535 2.3.4.2.2 is the closed form): clamp each given bound     *)
(* separately, then walk.  MC_C12 checks SliceIdx = SliceIdx2 on the whole  *)
(* generated space.                                                         *)
Clamp2(b, len, step, dfltUp, dfltDown) ==
  IF b[1] = "abs" THEN (IF step > 0 THEN dfltUp ELSE dfltDown)
  ELSE LET x == BVal(b) IN
    IF x < 0 THEN (IF x + len < 0 THEN (IF step < 0 THEN 0 - 1 ELSE 0) ELSE x + len)
    ELSE IF x >= len THEN (IF step < 0 THEN len - 1 ELSE len)
    ELSE x
RECURSIVE Walk2(_, _, _)
Walk2(i, stop, step) == IF (step > 0 /\ i < stop) \/ (step < 0 /\ i > stop) THEN <<i>> \o Walk2(i + step, stop, step) ELSE <<>>
SliceIdx2(len, s, e, st) ==
  LET step == SliceStep(st) IN
  IF step = 0 THEN <<>>
  ELSE Walk2(Clamp2(s, len, step, 0, len - 1), Clamp2(e, len, step, len, 0 - 1), step)

-----------------------------------------------------------------------------
(* Numbers.  Documents and literals of the functions family may contain     *)
(* non-integer numbers; a number is <<"int", n>> or a NORMALISED non-integer *)
(* rational <<"rat", n, d>> (d >= 2, gcd(n, d) = 1), so that = is numeric    *)
(* equality and an integer never equals a "rat".  The implementation under   *)
(* test computes with IEEE doubles; a rational whose denominator is a power  *)
(* of two (and small) is exactly representable and every + - * on such       *)
(* values is exact.  For all other rationals the specification never decides *)
(* anything that depends on the last bit: see Exact2 / Compare.              *)
JRat(n, d) == <<"rat", n, d>>
IsNum(v) == v[1] = "int" \/ v[1] = "rat"
NumN(v) == v[2]
NumD(v) == IF v[1] = "rat" THEN v[3] ELSE 1
AbsI(n) == IF n < 0 THEN 0 - n ELSE n
RECURSIVE Gcd(_, _)
Gcd(a, b) == IF b = 0 THEN a ELSE Gcd(b, a % b)
MkNum(n, d) == LET nn == IF d < 0 THEN 0 - n ELSE n            \* d # 0
                   dd == AbsI(d)
                   g == Gcd(AbsI(nn), dd)
               IN IF dd \div g = 1 THEN <<"int", nn \div g>> ELSE JRat(nn \div g, dd \div g)
Dyadic(v) == NumD(v) \in {1, 2, 4, 8, 16, 32, 64, 128, 256}
NumLess(x, y) == NumN(x) * NumD(y) < NumN(y) * NumD(x)
NumAdd(x, y) == MkNum(NumN(x) * NumD(y) + NumN(y) * NumD(x), NumD(x) * NumD(y))
NumMul(x, y) == MkNum(NumN(x) * NumN(y), NumD(x) * NumD(y))
NumNeg(x) == MkNum(0 - NumN(x), NumD(x))
\* ordering / equality of two numbers by exact value
NumCmp(op, x, y) == LET lt == NumLess(x, y)  gt == NumLess(y, x) IN
  CASE op = "==" -> ~lt /\ ~gt [] op = "!=" -> lt \/ gt [] op = "<" -> lt [] op = "<=" -> ~gt [] op = ">" -> gt [] op = ">=" -> ~lt

-----------------------------------------------------------------------------
(* JSON value comparison in filters.                                        *)
(*  ==, != : equality of JSON values ([rfc] 2.3.5.2.2; [data] filters.json  *)
(*           "equals" groups: numbers by value, strings by content, arrays  *)
(*           and objects structurally, different kinds never equal).        *)
(*  <,<=,>,>= : defined for two numbers and for two strings (by code point, *)
(*           [rfc] 2.3.5.2.2); every other combination is false ([data]     *)
(*           filters.json "Filter empty set less than or equal empty set",  *)
(*           "greater than" group with string members).  For <= and >= on   *)
(*           EQUAL operands that are neither numbers, strings nor null the  *)
(*           RFC says true and [data] is silent: don't care.                *)
RECURSIVE JEq(_, _)
JEq(x, y) ==
  IF x[1] # y[1] THEN FALSE
  ELSE CASE x[1] = "null" -> TRUE
         [] x[1] = "arr" -> Len(x[2]) = Len(y[2]) /\ \A i \in 1..Len(x[2]) : JEq(x[2][i], y[2][i])
         [] x[1] = "obj" -> DOMAIN x[2] = DOMAIN y[2] /\ \A k \in DOMAIN x[2] : JEq(x[2][k], y[2][k])
         [] x[1] = "rat" -> x[2] = y[2] /\ x[3] = y[3]
         [] OTHER -> x[2] = y[2]
\* "T" / "F" / "D" (don't care)
(* Functions family: numbers are compared by value ([data] filters.json      *)
(* "equals number with fraction", functions.json "avg in filter").  Two      *)
(* numbers of EQUAL exact value of which one is not exactly representable in *)
(* binary floating point may or may not be equal as doubles: don't care.     *)
(* An array whose order is not determined (keys() of an object with two or   *)
(* more members) has no decided comparison.                                  *)
Compare(op, x, y) ==
  LET tf(b) == IF b THEN "T" ELSE "F" IN
  IF x[1] = "uarr" \/ y[1] = "uarr" THEN "D"
  ELSE IF IsNum(x) /\ IsNum(y) /\ (x[1] = "rat" \/ y[1] = "rat") THEN
    (IF x = y /\ ~Dyadic(x) THEN "D" ELSE tf(NumCmp(op, x, y)))
  ELSE
  CASE op = "==" -> tf(JEq(x, y))
    [] op = "!=" -> tf(~JEq(x, y))
    [] OTHER ->
       IF x[1] = "int" /\ y[1] = "int" THEN
         tf(CASE op = "<" -> x[2] < y[2] [] op = "<=" -> x[2] <= y[2] [] op = ">" -> x[2] > y[2] [] op = ">=" -> x[2] >= y[2])
       ELSE IF x[1] = "str" /\ y[1] = "str" THEN
         tf(CASE op = "<" -> KeyLess(x[2], y[2]) [] op = "<=" -> ~KeyLess(y[2], x[2])
              [] op = ">" -> KeyLess(y[2], x[2]) [] op = ">=" -> ~KeyLess(x[2], y[2]))
       ELSE IF op \in {"<=", ">="} /\ x[1] # "null" /\ JEq(x, y) THEN "D"
       ELSE "F"

(* Truthiness of a filter operand used as a test ([data] filters.json       *)
(* "Filter expression with current object": selected are non-empty strings, *)
(* all numbers including 0, true; not selected are null, "", [], {}, false; *)
(* "Filter expression" group: a member that is null or missing is false).   *)
Truthy(v) == CASE v[1] = "null" -> FALSE
               [] v[1] = "bool" -> v[2]
               [] v[1] = "int" -> TRUE
               [] v[1] = "str" -> v[2] # <<>>
               [] v[1] = "arr" -> v[2] # <<>>
               [] v[1] = "obj" -> DOMAIN v[2] # {}
               [] v[1] = "rat" -> TRUE
               [] v[1] = "uarr" -> v[2] # <<>>

(* A query inside a filter is "singular" when it consists of name and index *)
(* selectors only ([rfc] 2.3.5.1 singular-query): it denotes the one value  *)
(* it addresses, or null when it addresses nothing ([data] "Filter          *)
(* expression with equals null": a missing member equals null).  Any other  *)
(* query denotes the array of the selected values ([data] "equals array for *)
(* dot notation with star", "equals array for array slice with range 1").   *)
IsSingularSeg(seg) == seg[1] = "child" /\ Len(seg[2]) = 1 /\ seg[2][1][1] \in {"name", "idx"}
IsSingular(segs) == \A i \in 1..Len(segs) : IsSingularSeg(segs[i])
HasParent(segs) == \E i \in 1..Len(segs) : segs[i][1] = "parent"
HasDesc(segs) == \E i \in 1..Len(segs) : segs[i][1] = "desc"

RECURSIVE ValuesOf(_)
ValuesOf(ns) == IF ns = <<>> THEN <<>> ELSE (IF IsNode(Head(ns)) THEN <<NVal(Head(ns))>> ELSE <<>>) \o ValuesOf(Tail(ns))
HasMark(ns, m) == \E i \in 1..Len(ns) : ns[i] = m
DCV == <<"DCV">>      \* the "don't care" filter value

-----------------------------------------------------------------------------
(* Built-in functions and arithmetic (the "functions" family of C12).        *)
(*                                                                           *)
(* Sources: [doc] doc/ref/jsonpath/functions/<name>.md - the signature line  *)
(*   and the "It is a type error if ..." clauses of every page; grammar.md   *)
(*   (unary-expression, binary-expression, function-expression);             *)
(*   [data] test_data/functions.json, filters.json (addition, subtraction,   *)
(*   multiplication, division, modulus, "set plus value" groups), regex.json *)
(*   (tokenize); [ext] the operator table of the "JsonCons JSONPath"         *)
(*   document that jsonpath.md designates "for details about the jsoncons    *)
(*   implementation" (precedence 1 ! unary -, 3 * / %, 4 + -, 5 < <= > >=,   *)
(*   6 == !=, 7 &&, 8 ||, binary operators left associative), which agrees   *)
(*   with ordinary arithmetic and with every [data] point (@.key+50==100,    *)
(*   @.price > sum(..) / length(..), ceil(1.2*2)).                           *)
(*                                                                           *)
(* TYPE ERRORS.  [data] functions.json fixes the outcome of a type error in  *)
(* an expression that is a function call: no result ("ceil('string')" ->     *)
(* []).  For a type error inside a FILTER the documents give no example; the *)
(* readings are "the call has no value" (= null, as a missing member) and    *)
(* "the filter cannot be evaluated for this node" (node not selected).  The  *)
(* evaluator computes the first reading (ERRV becomes null) and HasErr tells *)
(* whether a type error occurred anywhere in the expression: FilterKids then *)
(* decides "not selected" when the first reading says so too, and don't care *)
(* otherwise.  The same rule is applied to + - * / % and unary minus on an   *)
(* operand that is not a number ([data] filters.json "Filter expression with *)
(* addition": a missing member plus 50 is not 100; no document gives such an *)
(* expression a value).                                                      *)
ERRV == <<"ERR">>
IsArrLike(v) == v[1] = "arr" \/ v[1] = "uarr"       \* "uarr": an array whose order the documents leave open
AllNums(s) == \A i \in 1..Len(s) : IsNum(s[i])
AllStrs(s) == \A i \in 1..Len(s) : s[i][1] = "str"
AllDyadic(s) == \A i \in 1..Len(s) : Dyadic(s[i])
(* exactness guards: a result that is exactly representable although an      *)
(* operand was not (0.1 + 0.4) may differ in the last bit when computed with *)
(* doubles, and a later ==, floor or ceil would see it: don't care.  ([doc]  *)
(* floor.md spells the hazard out: "the representable floating point number  *)
(* closest to 8.95*100 is strictly less than 895.0".)                        *)
Exact2(x, y, res) == IF (Dyadic(x) /\ Dyadic(y)) \/ ~Dyadic(res) THEN res ELSE DCV
ExactSeq(s, res) == IF AllDyadic(s) \/ (IsNum(res) /\ ~Dyadic(res)) THEN res ELSE DCV
RECURSIVE SumSeq(_, _), ProdSeq(_, _)
SumSeq(s, i) == IF i > Len(s) THEN <<"int", 0>> ELSE NumAdd(s[i], SumSeq(s, i + 1))
ProdSeq(s, i) == IF i > Len(s) THEN <<"int", 1>> ELSE NumMul(s[i], ProdSeq(s, i + 1))
\* an extreme element of a non-empty sequence under a strict order
Extreme(s, Before(_, _)) == s[CHOOSE i \in 1..Len(s) : \A j \in 1..Len(s) : ~Before(s[j], s[i])]
StrLess(a, b) == KeyLess(a[2], b[2])

IsPrefixOf(p, t) == Len(p) <= Len(t) /\ SubSeq(t, 1, Len(p)) = p
IsSuffixOf(p, t) == Len(p) <= Len(t) /\ SubSeq(t, Len(t) - Len(p) + 1, Len(t)) = p
IsSubstrOf(p, t) == \E i \in 0..(Len(t) - Len(p)) : SubSeq(t, i + 1, i + Len(p)) = p

(* to_number.md: "If string, returns the parsed number" / "type error if the *)
(* string cannot be parsed as a number".  Decided: the JSON number forms     *)
(* without exponent (optional minus, digits without a superfluous leading    *)
(* zero, optionally a point and digits) have their value; a string with any  *)
(* character that occurs in no number notation (or the empty string) cannot  *)
(* be parsed; anything else built from number characters (" 1", "+1", "1e1", *)
(* "01", "1.") depends on a notation the page does not name: don't care.     *)
IsDigitCp(c) == c >= 48 /\ c <= 57
AllDigits(s) == s # <<>> /\ \A i \in 1..Len(s) : IsDigitCp(s[i])
RECURSIVE DigitsVal(_, _, _)
DigitsVal(s, i, acc) == IF i > Len(s) THEN acc ELSE DigitsVal(s, i + 1, acc * 10 + (s[i] - 48))
RECURSIVE Pow10(_)
Pow10(k) == IF k = 0 THEN 1 ELSE 10 * Pow10(k - 1)
ParseNumber(s) ==
  LET neg == s # <<>> /\ s[1] = 45
      body == IF neg THEN Tail(s) ELSE s
      dot == IF \E i \in 1..Len(body) : body[i] = 46 THEN CHOOSE i \in 1..Len(body) : body[i] = 46 /\ \A j \in 1..(i - 1) : body[j] # 46 ELSE 0
      ip == IF dot = 0 THEN body ELSE SubSeq(body, 1, dot - 1)
      fp == IF dot = 0 THEN <<>> ELSE SubSeq(body, dot + 1, Len(body))
      strict == AllDigits(ip) /\ (Len(ip) = 1 \/ ip[1] # 48) /\ (dot = 0 \/ AllDigits(fp)) /\ Len(body) <= 7
      numberish == s # <<>> /\ \A i \in 1..Len(s) : IsDigitCp(s[i]) \/ s[i] \in {43, 45, 46, 69, 101, 32}
  IN IF strict THEN MkNum((IF neg THEN 0 - 1 ELSE 1) * (DigitsVal(ip, 1, 0) * Pow10(Len(fp)) + DigitsVal(fp, 1, 0)), Pow10(Len(fp)))
     ELSE IF numberish THEN DCV
     ELSE ERRV

(* tokenize.md: "an array of strings formed by splitting the source string   *)
(* ..., separated by substrings that match the given regular expression      *)
(* pattern".  Regular expressions stay outside C12; decided are patterns     *)
(* that are a non-empty run of letters, digits, ',', ';', ' ' or non-ASCII   *)
(* characters (they match exactly themselves in every regular expression     *)
(* dialect).  Whether an empty LAST piece is kept (source ending in a        *)
(* separator, empty source) differs between the common split functions and   *)
(* the page does not say: don't care.  [data] regex.json "tokenize".         *)
PlainPattern(p) == p # <<>> /\ \A i \in 1..Len(p) :
                     (p[i] >= 48 /\ p[i] <= 57) \/ (p[i] >= 65 /\ p[i] <= 90) \/ (p[i] >= 97 /\ p[i] <= 122) \/ p[i] \in {44, 59, 32} \/ p[i] >= 128
RECURSIVE SplitFrom(_, _, _, _)
SplitFrom(s, p, i, cur) ==
  IF i > Len(s) THEN <<cur>>
  ELSE IF i + Len(p) - 1 <= Len(s) /\ SubSeq(s, i, i + Len(p) - 1) = p THEN <<cur>> \o SplitFrom(s, p, i + Len(p), <<>>)
  ELSE SplitFrom(s, p, i + 1, Append(cur, s[i]))
Tokenize(s, p) == IF ~PlainPattern(p) \/ s = <<>> THEN DCV
                  ELSE LET t == SplitFrom(s, p, 1, <<>>) IN
                       IF t[Len(t)] = <<>> THEN DCV ELSE <<"arr", [i \in 1..Len(t) |-> <<"str", t[i]>>]>>

(* The built-in functions; a is the sequence of argument VALUES.  Result: a  *)
(* value, ERRV (a type error by the page's own clauses) or DCV.              *)
FnApply(f, a) ==
  CASE f = "abs" ->       \* abs.md "Returns the absolute value of a number.  It is a type error if the provided argument is not a number."
         IF IsNum(a[1]) THEN MkNum(AbsI(NumN(a[1])), NumD(a[1])) ELSE ERRV
    [] f = "ceil" ->      \* ceil.md "Returns the smallest integer value not less than the provided number."
         IF IsNum(a[1]) THEN <<"int", 0 - ((0 - NumN(a[1])) \div NumD(a[1]))>> ELSE ERRV
    [] f = "floor" ->     \* floor.md "Returns the largest integer value not greater than the given number."
         IF IsNum(a[1]) THEN <<"int", NumN(a[1]) \div NumD(a[1])>> ELSE ERRV
    [] f = "sum" ->       \* sum.md "number sum(array[number] value) ... Returns 0 if the array is empty.  It is a type error if any item in the array is not a number."
         IF IsArrLike(a[1]) /\ AllNums(a[1][2]) THEN ExactSeq(a[1][2], SumSeq(a[1][2], 1)) ELSE ERRV
    [] f = "avg" ->       \* avg.md "Returns the average of the items in an array of numbers, or null if the array is empty"; type error: not an array / items that are not numbers
         IF IsArrLike(a[1]) /\ AllNums(a[1][2]) THEN
           (IF a[1][2] = <<>> THEN <<"null">>
            ELSE LET t == SumSeq(a[1][2], 1) IN ExactSeq(a[1][2], MkNum(NumN(t), NumD(t) * Len(a[1][2]))))
         ELSE ERRV
    [] f = "prod" ->      \* prod.md "Returns the product of the items in an array of numbers, or null if the array is empty."
         IF IsArrLike(a[1]) /\ AllNums(a[1][2]) THEN
           (IF a[1][2] = <<>> THEN <<"null">> ELSE ExactSeq(a[1][2], ProdSeq(a[1][2], 1)))
         ELSE ERRV
    [] f \in {"min", "max"} ->   \* min.md / max.md "the lowest / highest number found in an array of numbers, or ... string in an array of strings, or null if the array is empty"; type error: not an array / items not all numbers or all strings
         IF ~IsArrLike(a[1]) THEN ERRV
         ELSE IF a[1][2] = <<>> THEN <<"null">>
         ELSE IF AllNums(a[1][2]) THEN (IF f = "min" THEN Extreme(a[1][2], NumLess) ELSE Extreme(a[1][2], LAMBDA x, y : NumLess(y, x)))
         ELSE IF AllStrs(a[1][2]) THEN (IF f = "min" THEN Extreme(a[1][2], StrLess) ELSE Extreme(a[1][2], LAMBDA x, y : StrLess(y, x)))
         ELSE ERRV
    [] f = "keys" ->      \* keys.md "Returns an array of keys in the object.  It is a type error if the provided argument is not an object."
                          \* The order of the keys is not stated (and json / ojson enumerate members differently): "uarr" for two or more.
         IF a[1][1] = "obj" THEN
           LET ks == SortKeys(DOMAIN a[1][2]) IN <<IF Len(ks) >= 2 THEN "uarr" ELSE "arr", [i \in 1..Len(ks) |-> <<"str", ks[i]>>]>>
         ELSE ERRV
    [] f = "contains" ->  \* contains.md: array: "contains an item that is equal to the search value"; string: "contains a substring that is equal to the
                          \* search value"; type error: source not an array or string / source a string but search value not a string
         IF IsArrLike(a[1]) THEN (IF a[2][1] = "uarr" THEN DCV ELSE <<"bool", \E i \in 1..Len(a[1][2]) : JEq(a[1][2][i], a[2])>>)
         ELSE IF a[1][1] = "str" THEN (IF a[2][1] = "str" THEN <<"bool", IsSubstrOf(a[2][2], a[1][2])>> ELSE ERRV)
         ELSE ERRV
    [] f = "starts_with" ->   \* starts_with.md; type error: source / prefix not a string
         IF a[1][1] = "str" /\ a[2][1] = "str" THEN <<"bool", IsPrefixOf(a[2][2], a[1][2])>> ELSE ERRV
    [] f = "ends_with" ->     \* ends_with.md
         IF a[1][1] = "str" /\ a[2][1] = "str" THEN <<"bool", IsSuffixOf(a[2][2], a[1][2])>> ELSE ERRV
    [] f = "to_number" ->     \* to_number.md "If string, returns the parsed number.  If number, returns the passed in value."
         IF IsNum(a[1]) THEN a[1] ELSE IF a[1][1] = "str" THEN ParseNumber(a[1][2]) ELSE ERRV
    [] f = "tokenize" ->      \* tokenize.md "It is a type error if either argument is not a string."
         IF a[1][1] = "str" /\ a[2][1] = "str" THEN Tokenize(a[1][2], a[2][2]) ELSE ERRV
FnArity(f) == IF f \in {"contains", "starts_with", "ends_with", "tokenize"} THEN 2 ELSE 1

(* Arithmetic on two numbers ([doc] grammar.md binary-operator; [data]       *)
(* filters.json groups "addition", "subtraction", "multiplication",          *)
(* "division", "modulus").  Decided: + - * exactly; x / y when the quotient  *)
(* of two integers is an integer ([data] 50/10 == 5) or when an operand is   *)
(* not an integer ([doc] sum.md sum(..)/length(..): the real quotient);      *)
(* x % y for integers when y divides x or both are positive ([data] 60 % 40  *)
(* == 20).  Not stated anywhere: division / modulus by zero, the quotient of *)
(* two integers that is not an integer (1 or 1.5 for 3/2 ?), the sign of a   *)
(* remainder with a negative operand, % on non-integers: don't care.         *)
ArithV(op, x, y) ==
  CASE op = "+" -> Exact2(x, y, NumAdd(x, y))
    [] op = "-" -> Exact2(x, y, NumAdd(x, NumNeg(y)))
    [] op = "*" -> Exact2(x, y, NumMul(x, y))
    [] op = "/" -> IF NumN(y) = 0 THEN DCV
                   ELSE IF x[1] = "int" /\ y[1] = "int" THEN (IF x[2] % AbsI(y[2]) = 0 THEN MkNum(x[2], y[2]) ELSE DCV)
                   ELSE Exact2(x, y, MkNum(NumN(x) * NumD(y), NumD(x) * NumN(y)))
    [] op = "%" -> IF x[1] = "int" /\ y[1] = "int" /\ y[2] # 0 THEN
                     (IF x[2] % AbsI(y[2]) = 0 THEN <<"int", 0>> ELSE IF x[2] > 0 /\ y[2] > 0 THEN <<"int", x[2] % y[2]>> ELSE DCV)
                   ELSE DCV

-----------------------------------------------------------------------------
(* Evaluation.  EvalSegs(segs, nodes, root) applies the segments left to     *)
(* right to a node list ([rfc] 2.1.2: each segment maps the input nodelist   *)
(* to the concatenation of the per-node results).                           *)
RECURSIVE EvalSegs(_, _, _), ApplySeg(_, _, _), ApplySel(_, _, _), ApplySels(_, _, _, _),
          FilterKids(_, _, _, _), FVal(_, _, _), Descend(_, _, _), DescendKids(_, _, _, _), ApplyAll(_, _, _, _),
          HasErr(_, _, _), OpenCmpValue(_, _, _)

(* [data] fixes that an ordering comparison of operands that are not two     *)
(* numbers or two strings does not select (Compare: "F"); whether its VALUE  *)
(* is false or "nothing" only shows when it is itself compared or passed to  *)
(* a function ((@.x < 1) == false), which no document describes: don't care. *)
OpenCmpValue(e, c, r) == e[1] = "cmp" /\ e[2] \in {"<", "<=", ">", ">="} /\
                           LET x == FVal(e[3], c, r)  y == FVal(e[4], c, r) IN
                           x = DCV \/ y = DCV \/ ~((IsNum(x) /\ IsNum(y)) \/ (x[1] = "str" /\ y[1] = "str"))

(* filter expression value for current node c: a JSON value or DCV *)
FVal(e, c, r) ==
  CASE e[1] = "lit" -> e[2]
    [] e[1] = "q" ->
         LET start == IF e[2] = "cur" THEN c ELSE MkNode(<<>>, r)
             ns == EvalSegs(e[3], <<start>>, r)
             vs == ValuesOf(ns)
         IN IF HasMark(ns, DCMark) \/ HasParent(e[3]) \/ HasDesc(e[3]) THEN DCV
                 \* the value of a path with a parent operator or a recursive descent inside a filter is described
                 \* nowhere in [doc] or [data] (one selected node: that node or a one-element array?)
            ELSE IF IsSingular(e[3]) THEN (IF vs = <<>> THEN JNull ELSE vs[1])
            ELSE IF HasMark(ns, UOMark) /\ Len(vs) >= 2 THEN DCV    \* array of values in an undetermined order
            ELSE JArr(vs)
    [] e[1] = "len" ->
         (* [doc] functions/length.md: number of items of an array, of members of an object, *)
         (* of code points of a string.  For other arguments the page says null while       *)
         (* [data] functions.json says "no result": don't care.                             *)
         LET x == FVal(e[2], c, r) IN
         IF x = DCV THEN DCV
         ELSE CASE x[1] = "arr" -> JInt(Len(x[2]))
                [] x[1] = "obj" -> JInt(Cardinality(DOMAIN x[2]))
                [] x[1] = "str" -> JInt(Len(x[2]))
                [] x[1] = "uarr" -> JInt(Len(x[2]))
                [] OTHER -> DCV
    [] e[1] = "lenp" ->
         (* [doc] jsonpath.md: "A length property on arrays and strings that returns the    *)
         (* number of elements in an array, or the number of codepoints in a string".  On an *)
         (* object "length" is an ordinary member name; anything else has no such member.   *)
         LET x == FVal(FQ(e[2], e[3]), c, r) IN
         IF x = DCV \/ ~IsSingular(e[3]) THEN DCV
         ELSE CASE x[1] = "arr" -> JInt(Len(x[2]))
                [] x[1] = "str" -> JInt(Len(x[2]))
                [] x[1] = "obj" -> (IF <<108,101,110,103,116,104>> \in DOMAIN x[2] THEN x[2][<<108,101,110,103,116,104>>] ELSE JNull)
                [] OTHER -> JNull
    [] e[1] = "cmp" ->
         LET x == FVal(e[3], c, r)  y == FVal(e[4], c, r) IN
         IF x = DCV \/ y = DCV THEN DCV
         ELSE IF OpenCmpValue(e[3], c, r) \/ OpenCmpValue(e[4], c, r) THEN DCV
         ELSE LET t == Compare(e[2], x, y) IN IF t = "D" THEN DCV ELSE JBool(t = "T")
    [] e[1] = "not" -> LET x == FVal(e[2], c, r) IN IF x = DCV THEN DCV ELSE JBool(~Truthy(x))
    [] e[1] = "and" -> LET x == FVal(e[2], c, r)  y == FVal(e[3], c, r) IN
                       IF x = DCV \/ y = DCV THEN DCV ELSE JBool(Truthy(x) /\ Truthy(y))
    [] e[1] = "or" -> LET x == FVal(e[2], c, r)  y == FVal(e[3], c, r) IN
                      IF x = DCV \/ y = DCV THEN DCV ELSE JBool(Truthy(x) \/ Truthy(y))
    [] e[1] = "fn" ->
         (* a function call: the arguments are filter expressions ([doc] grammar.md function-arg = expression); a   *)
         (* path argument denotes what it denotes anywhere else in a filter: the addressed value when singular, the *)
         (* array of the selected values otherwise ([doc] avg.md avg($.books[*].price), length.md).  A singular    *)
         (* path that addresses nothing, passed where every value is acceptable (the search value of contains on an *)
         (* array), is described nowhere: don't care.  ERRV reads as null here, see HasErr.                         *)
         LET a == [i \in 1..Len(e[3]) |-> FVal(e[3][i], c, r)] IN
         IF \E i \in 1..Len(a) : a[i] = DCV \/ OpenCmpValue(e[3][i], c, r) THEN DCV
         ELSE IF e[2] = "contains" /\ IsArrLike(a[1]) /\ e[3][2][1] = "q" /\ IsSingular(e[3][2][3]) /\ a[2] = JNull
                 /\ ValuesOf(EvalSegs(e[3][2][3], <<IF e[3][2][2] = "cur" THEN c ELSE MkNode(<<>>, r)>>, r)) = <<>> THEN DCV
         ELSE LET v == FnApply(e[2], a) IN IF v = ERRV THEN JNull ELSE v
    [] e[1] = "fq" ->
         (* segments applied to the value of a function call ([doc] tokenize.md tokenize(@.author,'\\s+')[-1], [data] *)
         (* functions.json keys($.store.book[0])[*]): the value takes the place of the document                     *)
         LET v == FVal(e[2], c, r) IN
         IF v = DCV \/ v[1] = "uarr" THEN DCV
         ELSE LET ns == EvalSegs(e[3], <<MkNode(<<>>, v)>>, v)
                  vs == ValuesOf(ns)
              IN IF HasMark(ns, DCMark) \/ HasParent(e[3]) \/ HasDesc(e[3]) THEN DCV
                 ELSE IF IsSingular(e[3]) THEN (IF vs = <<>> THEN JNull ELSE vs[1])
                 ELSE IF HasMark(ns, UOMark) /\ Len(vs) >= 2 THEN DCV
                 ELSE JArr(vs)
    [] e[1] = "neg" ->       \* [doc] grammar.md unary-operator "-"
         LET x == FVal(e[2], c, r) IN IF x = DCV THEN DCV ELSE IF IsNum(x) THEN NumNeg(x) ELSE JNull
    [] e[1] = "ar" ->
         LET x == FVal(e[3], c, r)  y == FVal(e[4], c, r) IN
         IF x = DCV \/ y = DCV THEN DCV ELSE IF IsNum(x) /\ IsNum(y) THEN ArithV(e[2], x, y) ELSE JNull

(* did a type error occur anywhere in e (evaluated for node c, no short cut)? Only asked when FVal(e, c, r) # DCV. *)
HasErr(e, c, r) ==
  CASE e[1] \in {"lit", "q", "lenp"} -> FALSE
    [] e[1] \in {"len", "not", "fq"} -> HasErr(e[2], c, r)
    [] e[1] = "neg" -> HasErr(e[2], c, r) \/ ~IsNum(FVal(e[2], c, r))
    [] e[1] = "fn" -> \/ \E i \in 1..Len(e[3]) : HasErr(e[3][i], c, r)
                      \/ FnApply(e[2], [i \in 1..Len(e[3]) |-> FVal(e[3][i], c, r)]) = ERRV
    [] e[1] = "ar" -> HasErr(e[3], c, r) \/ HasErr(e[4], c, r) \/ ~IsNum(FVal(e[3], c, r)) \/ ~IsNum(FVal(e[4], c, r))
    [] e[1] = "cmp" -> HasErr(e[3], c, r) \/ HasErr(e[4], c, r)
    [] e[1] \in {"and", "or"} -> HasErr(e[2], c, r) \/ HasErr(e[3], c, r)

(* [rfc] 2.3.5.2: the filter selector tests every child of the node (array  *)
(* elements, object member values; [data] "Filter expression on object")    *)
FilterKids(f, ks, i, r) ==
  IF i > Len(ks) THEN <<>>
  ELSE LET x == FVal(f, ks[i], r) IN
       (IF x = DCV THEN <<DCMark>>
        ELSE IF Truthy(x) THEN (IF HasErr(f, ks[i], r) THEN <<DCMark>> ELSE <<ks[i]>>)     \* see "TYPE ERRORS" above
        ELSE <<>>) \o FilterKids(f, ks, i + 1, r)

(* one selector applied to one node *)
ApplySel(sel, n, r) ==
  LET p == NPath(n)  v == NVal(n) IN
  CASE sel[1] = "name" ->      \* [rfc] 2.3.1.2: the member value of an object with that name, else nothing
         IF IsObj(v) /\ sel[2] \in DOMAIN v[2] THEN <<MkNode(Append(p, PName(sel[2])), v[2][sel[2]])>> ELSE <<>>
    [] sel[1] = "idx" ->       \* [rfc] 2.3.3.2: element of an array, negative counts from the end, out of range selects nothing
         IF IsArr(v) THEN LET j == Norm(sel[2], Len(v[2])) IN
                          IF j >= 0 /\ j < Len(v[2]) THEN <<MkNode(Append(p, PIdx(j)), v[2][j + 1])>> ELSE <<>>
         ELSE <<>>
    [] sel[1] = "wild" ->      \* [rfc] 2.3.2.2: all children of an object or array, nothing for primitives
         Kids(n) \o UOIf(v)
    [] sel[1] = "slice" ->     \* [rfc] 2.3.4.2: arrays only
         IF IsArr(v) THEN LET ix == SliceIdx(Len(v[2]), sel[2], sel[3], sel[4]) IN
                          [k \in 1..Len(ix) |-> MkNode(Append(p, PIdx(ix[k])), v[2][ix[k] + 1])]
         ELSE <<>>
    [] sel[1] = "filter" -> FilterKids(sel[2], Kids(n), 1, r) \o UOIf(v)
    [] sel[1] = "path" ->      \* [data] union.json "JSONPath union of multiple different paths": a non-empty path relative
                               \* to the current node (@.x, @[i]...) as a union member.  An absolute path ($.x...) as a member is in
                               \* neither [doc] nor [data], but the compiler accepts it and "$" has one meaning everywhere (the root
                               \* value, [rfc] 2.2): its nodes are those of the path evaluated from the root, under their own
                               \* normalized paths - whatever the current node is.  A bare @ or $ as a member: don't care.
         IF sel[3] # <<>> THEN EvalSegs(sel[3], <<IF sel[2] = "cur" THEN n ELSE MkNode(<<>>, r)>>, r) ELSE <<DCMark>>

(* [rfc] 2.5.1.2: the child segment concatenates the results of its selectors in order *)
ApplySels(sels, i, n, r) == IF i > Len(sels) THEN <<>> ELSE ApplySel(sels[i], n, r) \o ApplySels(sels, i + 1, n, r)

(* [rfc] 2.5.2.2 descendant segment: the selectors are applied to the node   *)
(* and to every descendant; a node is visited before its descendants and     *)
(* array elements in order.  [data] recursive-descent.json fixes depth-first *)
(* pre-order (node, then each child's subtree in turn).                      *)
Descend(sels, n, r) == ApplySels(sels, 1, n, r) \o DescendKids(sels, Kids(n), 1, r)
DescendKids(sels, ks, i, r) == IF i > Len(ks) THEN <<>> ELSE Descend(sels, ks[i], r) \o DescendKids(sels, ks, i + 1, r)
RECURSIVE HasWideObj(_)
HasWideObj(v) == CASE v[1] = "obj" -> Cardinality(DOMAIN v[2]) >= 2 \/ \E k \in DOMAIN v[2] : HasWideObj(v[2][k])
                   [] v[1] = "arr" -> \E i \in 1..Len(v[2]) : HasWideObj(v[2][i])
                   [] OTHER -> FALSE

ApplySeg(seg, n, r) ==
  IF ~IsNode(n) THEN <<n>>                    \* marks are carried through
  ELSE CASE seg[1] = "child" -> ApplySels(seg[2], 1, n, r)
         [] seg[1] = "desc" -> Descend(seg[2], n, r) \o (IF HasWideObj(NVal(n)) THEN <<UOMark>> ELSE <<>>)
         [] seg[1] = "parent" ->      \* [data] parent-operator.json: the node one step up; the root has none
              IF NPath(n) = <<>> THEN <<>>
              ELSE LET pp == SubSeq(NPath(n), 1, Len(NPath(n)) - 1) IN <<MkNode(pp, Resolve(r, pp)[2])>>
ApplyAll(seg, ns, i, r) == IF i > Len(ns) THEN <<>> ELSE ApplySeg(seg, ns[i], r) \o ApplyAll(seg, ns, i + 1, r)
EvalSegs(segs, ns, r) == IF segs = <<>> THEN ns ELSE EvalSegs(Tail(segs), ApplyAll(Head(segs), ns, 1, r), r)

\* raw evaluation of an absolute query (nodes and marks)
EvalRaw(segs, doc) == EvalSegs(segs, <<MkNode(<<>>, doc)>>, doc)
NodesOf(raw) == SelectSeq(raw, IsNode)

(* A whole expression that is a function call, optionally followed by       *)
(* segments ([doc] length.md json_query(j, "length($.books[*])") -> [4];     *)
(* [data] functions.json "keys($.store.book[0])[*]", regex.json              *)
(* "tokenize($,'\\s+')[*]").  "@" at this level is the document ([data]      *)
(* "length(@)" -> 12).  The result is a list of VALUES (no document location *)
(* corresponds to them, and no document says what "path" they carry).        *)
(*   a type error in the call itself -> no result ([data] "abs($.str)" -> [])*)
(*   a type error only inside an argument while the call itself goes through *)
(*   under the null reading (contains(x, abs('a'))) -> don't care            *)
(* Result: [dc, ord, vals].                                                  *)
TopEval(fe, segs, doc) ==
  LET c == MkNode(<<>>, doc)
      v == FVal(fe, c, doc)
      selfErr == fe[1] = "fn" /\ (\A i \in 1..Len(fe[3]) : FVal(fe[3][i], c, doc) # DCV)
                 /\ FnApply(fe[2], [i \in 1..Len(fe[3]) |-> FVal(fe[3][i], c, doc)]) = ERRV
  IN IF v = DCV THEN [dc |-> TRUE, ord |-> TRUE, vals |-> <<>>]
     ELSE IF selfErr THEN [dc |-> FALSE, ord |-> TRUE, vals |-> <<>>]
     ELSE IF HasErr(fe, c, doc) THEN [dc |-> TRUE, ord |-> TRUE, vals |-> <<>>]
     ELSE IF segs = <<>> THEN [dc |-> v[1] = "uarr", ord |-> TRUE, vals |-> <<v>>]
     ELSE LET w == IF v[1] = "uarr" THEN <<"arr", v[2]>> ELSE v
              ns == EvalSegs(segs, <<MkNode(<<>>, w)>>, w)
          IN [dc |-> HasMark(ns, DCMark) \/ (v[1] = "uarr" /\ segs # <<Child(<<SWild>>)>>),
              ord |-> ~HasMark(ns, UOMark) /\ v[1] # "uarr", vals |-> ValuesOf(ns)]
Unconstrained(raw) == HasMark(raw, DCMark)
OrderOpen(raw) == HasMark(raw, UOMark)

-----------------------------------------------------------------------------
(* Result options ([doc] result_options.md, json_query.md "Result options", *)
(* jsonpath.md examples): nodups removes nodes whose normalized path        *)
(* already occurred (first occurrence stays in place), sort orders by       *)
(* normalized path.  Both are given as index lists into the plain result.   *)
ElemLess(a, b) == IF a[1] # b[1] THEN a[1] = "i"            \* never arises between locations of one document
                  ELSE IF a[1] = "i" THEN a[2] < b[2] ELSE KeyLess(a[2], b[2])
RECURSIVE PathLessFrom(_, _, _)
PathLessFrom(p, q, i) == IF i > Len(q) THEN FALSE
                         ELSE IF i > Len(p) THEN TRUE            \* a location sorts before the locations below it
                         ELSE IF ElemLess(p[i], q[i]) THEN TRUE
                         ELSE IF ElemLess(q[i], p[i]) THEN FALSE
                         ELSE PathLessFrom(p, q, i + 1)
PathLess(p, q) == PathLessFrom(p, q, 1)

RECURSIVE NoDupIdxFrom(_, _, _)
NoDupIdxFrom(ns, i, seen) == IF i > Len(ns) THEN <<>>
                             ELSE IF NPath(ns[i]) \in seen THEN NoDupIdxFrom(ns, i + 1, seen)
                             ELSE <<i>> \o NoDupIdxFrom(ns, i + 1, seen \cup {NPath(ns[i])})
NoDupIdx(ns) == NoDupIdxFrom(ns, 1, {})
\* stable insertion sort of an index list by the path of the node it refers to
RECURSIVE InsIdx(_, _, _), SortIdxFrom(_, _, _)
InsIdx(ns, sorted, i) == IF sorted = <<>> THEN <<i>>
                         ELSE IF PathLess(NPath(ns[i]), NPath(ns[Head(sorted)])) THEN <<i>> \o sorted
                         ELSE <<Head(sorted)>> \o InsIdx(ns, Tail(sorted), i)      \* after equal paths: stable
SortIdxFrom(ns, idx, k) == IF k = 0 THEN <<>> ELSE InsIdx(ns, SortIdxFrom(ns, idx, k - 1), idx[k])
SortIdx(ns, idx) == SortIdxFrom(ns, idx, Len(idx))
AllIdx(ns) == [i \in 1..Len(ns) |-> i]

-----------------------------------------------------------------------------
(* json_replace ([doc] json_replace.md: "Searches for all values that match *)
(* the JSONPath expression and replaces them with the specified value"):    *)
(* every selected location carries the new value afterwards, everything     *)
(* else is unchanged.  A selected location below another selected location  *)
(* disappears with its ancestor.                                            *)
RECURSIVE ReplaceIn(_, _, _, _)
ReplaceIn(v, p, P, m) ==
  IF p \in P THEN m
  ELSE CASE v[1] = "arr" -> JArr([i \in 1..Len(v[2]) |-> ReplaceIn(v[2][i], Append(p, PIdx(i - 1)), P, m)])
         [] v[1] = "obj" -> JObj([k \in DOMAIN v[2] |-> ReplaceIn(v[2][k], Append(p, PName(k)), P, m)])
         [] OTHER -> v
JPReplace(doc, ns, m) == ReplaceIn(doc, <<>>, {NPath(ns[i]) : i \in 1..Len(ns)}, m)

-----------------------------------------------------------------------------
(* Normalized paths, RFC 9535 2.7 (and every "path" example of [doc]):       *)
(*   "$", then ['name'] with ' and \ escaped by \, the control characters    *)
(*   as \b \t \n \f \r or \u00xx (lower-case hex), or [index].               *)
RECURSIVE Dec(_)
Dec(n) == IF n < 10 THEN <<48 + n>> ELSE Dec(n \div 10) \o <<48 + (n % 10)>>
IntStr(n) == IF n < 0 THEN <<45>> \o Dec(0 - n) ELSE Dec(n)
HexDigit(x) == IF x < 10 THEN 48 + x ELSE 87 + x
NormEscChar(c) == CASE c = 39 -> <<92, 39>> [] c = 92 -> <<92, 92>>
                    [] c = 8 -> <<92, 98>> [] c = 9 -> <<92, 116>> [] c = 10 -> <<92, 110>>
                    [] c = 12 -> <<92, 102>> [] c = 13 -> <<92, 114>>
                    [] c < 32 -> <<92, 117, 48, 48, HexDigit(c \div 16), HexDigit(c % 16)>>
                    [] OTHER -> <<c>>
RECURSIVE NormEsc(_, _)
NormEsc(k, i) == IF i > Len(k) THEN <<>> ELSE NormEscChar(k[i]) \o NormEsc(k, i + 1)
RECURSIVE NormElems(_, _)
NormElems(p, i) == IF i > Len(p) THEN <<>>
                   ELSE (IF p[i][1] = "n" THEN <<91, 39>> \o NormEsc(p[i][2], 1) \o <<39, 93>>
                         ELSE <<91>> \o Dec(p[i][2]) \o <<93>>) \o NormElems(p, i + 1)
NormPath(p) == <<36>> \o NormElems(p, 1)

(* the inverse, for the model-internal round trip: parse a normalized path  *)
(* back to a location (only the escapes NormEsc produces for code points    *)
(* >= 32, which is all the generators use)                                  *)
RECURSIVE ParseNormName(_, _, _), ParseNormIdx(_, _, _), ParseNormFrom(_, _, _)
ParseNormName(s, i, acc) ==       \* -> <<name, next index>> ; i is just after the opening quote
  IF s[i] = 39 THEN <<acc, i + 1>>
  ELSE IF s[i] = 92 THEN ParseNormName(s, i + 2, Append(acc, s[i + 1]))
  ELSE ParseNormName(s, i + 1, Append(acc, s[i]))
ParseNormIdx(s, i, acc) == IF s[i] = 93 THEN <<acc, i>> ELSE ParseNormIdx(s, i + 1, acc * 10 + (s[i] - 48))
ParseNormFrom(s, i, p) ==
  IF i > Len(s) THEN p
  ELSE IF s[i + 1] = 39 THEN LET x == ParseNormName(s, i + 2, <<>>) IN ParseNormFrom(s, x[2] + 1, Append(p, PName(x[1])))
  ELSE LET x == ParseNormIdx(s, i + 1, 0) IN ParseNormFrom(s, x[2] + 1, Append(p, PIdx(x[1])))
ParseNormPath(s) == ParseNormFrom(s, 2, <<>>)

-----------------------------------------------------------------------------
(* Un-parser.  Show(segs, sty) renders an absolute query; sty is a record   *)
(*   dot : dot notation where the grammar has one: .name  .STAR  ..name    *)
(*         ..STAR  (STAR = the wildcard character)                           *)
(*   q   : "s" single-quoted or "d" double-quoted names and string literals *)
(*   sp  : white space inside brackets, around "," and comparison operators *)
(*   par : filters as ?(expr) rather than ?expr                             *)
(*   min : only the parentheses precedence requires (! over comparison over *)
(*         && over ||) rather than parentheses around every compound operand *)
(* Syntax per [doc] jsonpath_grammer.md / jsoncons-jsonpath-abnf.md; forms   *)
(* that only [data] documents: .'name' and ."name" (dot-notation.json),     *)
(* ?expr without parentheses (filters.json), white space inside brackets    *)
(* (union.json "Union with spaces").                                        *)
(* Unquoted names are used only for  (A-Za-z_ / non-ASCII) followed by      *)
(* (A-Za-z0-9_ / non-ASCII)  - the intersection of the two grammars plus    *)
(* [data] "Dot notation with non ASCII key"; the empty name has no dot form *)
(* (quoted-string = quote 1*(...) quote) and is always bracketed.           *)
IsAlpha(c) == (c >= 65 /\ c <= 90) \/ (c >= 97 /\ c <= 122) \/ c = 95 \/ c >= 128
IsAlnum(c) == IsAlpha(c) \/ (c >= 48 /\ c <= 57)
IdentSafe(k) == Len(k) >= 1 /\ IsAlpha(k[1]) /\ \A i \in 1..Len(k) : IsAlnum(k[i])
QuoteCp(sty) == IF sty.q = "s" THEN 39 ELSE 34
RECURSIVE EscQuoted(_, _, _)
EscQuoted(k, i, q) == IF i > Len(k) THEN <<>> ELSE (IF k[i] = q \/ k[i] = 92 THEN <<92, k[i]>> ELSE <<k[i]>>) \o EscQuoted(k, i + 1, q)
Quoted(k, sty) == <<QuoteCp(sty)>> \o EscQuoted(k, 1, QuoteCp(sty)) \o <<QuoteCp(sty)>>
MaxDigits == <<57,50,50,51,51,55,50,48,51,54,56,53,52,55,55,53,56,48,55>>      \* 9223372036854775807
ShowBound(b) == CASE b[1] = "abs" -> <<>> [] b[1] = "v" -> IntStr(b[2]) [] b[1] = "max" -> MaxDigits [] b[1] = "min" -> <<45>> \o MaxDigits
Sp(sty) == IF sty.sp THEN <<32>> ELSE <<>>
OpStr(op) == CASE op = "==" -> <<61,61>> [] op = "!=" -> <<33,61>> [] op = "<" -> <<60>> [] op = "<=" -> <<60,61>>
               [] op = ">" -> <<62>> [] op = ">=" -> <<62,61>>
LengthCps == <<108,101,110,103,116,104>>

(* Functions family: function names, arithmetic operators, number literals  *)
(* with a fraction (only halves, quarters and eighths are ever rendered),    *)
(* and the operator levels used to place parentheses ([ext] operator table,  *)
(* see "Built-in functions and arithmetic").  Style field "tight" (only read *)
(* for arithmetic operators): no white space around + - * / % as in [data]   *)
(* "@.key+50==100", "ceil(1.2*2)".                                           *)
FnNameCps(f) == CASE f = "abs" -> <<97,98,115>> [] f = "avg" -> <<97,118,103>> [] f = "ceil" -> <<99,101,105,108>>
                  [] f = "contains" -> <<99,111,110,116,97,105,110,115>> [] f = "ends_with" -> <<101,110,100,115,95,119,105,116,104>>
                  [] f = "floor" -> <<102,108,111,111,114>> [] f = "keys" -> <<107,101,121,115>> [] f = "max" -> <<109,97,120>>
                  [] f = "min" -> <<109,105,110>> [] f = "prod" -> <<112,114,111,100>>
                  [] f = "starts_with" -> <<115,116,97,114,116,115,95,119,105,116,104>> [] f = "sum" -> <<115,117,109>>
                  [] f = "to_number" -> <<116,111,95,110,117,109,98,101,114>> [] f = "tokenize" -> <<116,111,107,101,110,105,122,101>>
ArOpStr(op) == CASE op = "+" -> <<43>> [] op = "-" -> <<45>> [] op = "*" -> <<42>> [] op = "/" -> <<47>> [] op = "%" -> <<37>>
Renderable(v) == v[1] # "rat" \/ v[3] \in {2, 4, 8}
ShowNum(v) == IF v[1] = "int" THEN IntStr(v[2])
              ELSE LET a == AbsI(v[2])  w == a \div v[3]  m == ((a % v[3]) * 1000) \div v[3]      \* m: the fraction in thousandths
                       frac == IF m % 100 = 0 THEN Dec(m \div 100) ELSE IF m % 10 = 0 THEN (IF m < 100 THEN <<48>> ELSE <<>>) \o Dec(m \div 10)
                               ELSE (IF m < 100 THEN <<48>> ELSE <<>>) \o Dec(m)
                   IN (IF v[2] < 0 THEN <<45>> ELSE <<>>) \o Dec(w) \o <<46>> \o frac
Prec(e) == CASE e[1] \in {"not", "neg"} -> 1
             [] e[1] = "ar" -> (IF e[2] \in {"*", "/", "%"} THEN 3 ELSE 4)
             [] e[1] = "cmp" -> (IF e[2] \in {"==", "!="} THEN 6 ELSE 5)
             [] e[1] = "and" -> 7
             [] e[1] = "or" -> 8
             [] OTHER -> 0
ASp(sty) == IF sty.tight THEN <<>> ELSE <<32>>

RECURSIVE ShowSegs(_, _, _), ShowSeg(_, _), ShowSel(_, _), ShowSels(_, _, _), ShowF(_, _), ShowOperandIn(_, _, _),
          ShowOpnd(_, _, _, _), ShowArgs(_, _, _)
ShowQuery(rel, segs, sty) == <<IF rel = "root" THEN 36 ELSE 64>> \o ShowSegs(segs, 1, sty)
ShowSegs(segs, i, sty) == IF i > Len(segs) THEN <<>> ELSE ShowSeg(segs[i], sty) \o ShowSegs(segs, i + 1, sty)
ShowSels(sels, i, sty) == IF i > Len(sels) THEN <<>>
                          ELSE (IF i > 1 THEN Sp(sty) \o <<44>> \o Sp(sty) ELSE <<>>) \o ShowSel(sels[i], sty) \o ShowSels(sels, i + 1, sty)
Bracket(sels, sty) == <<91>> \o Sp(sty) \o ShowSels(sels, 1, sty) \o Sp(sty) \o <<93>>
ShowSeg(seg, sty) ==
  CASE seg[1] = "parent" -> <<94>>
    [] seg[1] = "child" ->
         IF sty.dot /\ Len(seg[2]) = 1 /\ seg[2][1][1] = "name" /\ seg[2][1][2] # <<>>
         THEN <<46>> \o (IF IdentSafe(seg[2][1][2]) THEN seg[2][1][2] ELSE Quoted(seg[2][1][2], sty))
         ELSE IF sty.dot /\ Len(seg[2]) = 1 /\ seg[2][1][1] = "wild" THEN <<46, 42>>
         ELSE Bracket(seg[2], sty)
    [] seg[1] = "desc" ->
         IF sty.dot /\ Len(seg[2]) = 1 /\ seg[2][1][1] = "name" /\ IdentSafe(seg[2][1][2]) THEN <<46, 46>> \o seg[2][1][2]
         ELSE IF sty.dot /\ Len(seg[2]) = 1 /\ seg[2][1][1] = "wild" THEN <<46, 46, 42>>
         ELSE <<46, 46>> \o Bracket(seg[2], sty)
ShowSel(sel, sty) ==
  CASE sel[1] = "name" -> Quoted(sel[2], sty)
    [] sel[1] = "idx" -> IntStr(sel[2])
    [] sel[1] = "wild" -> <<42>>
    [] sel[1] = "slice" -> ShowBound(sel[2]) \o <<58>> \o ShowBound(sel[3])
                           \o (IF sel[4][1] = "abs" THEN (IF sty.sp THEN <<58>> ELSE <<>>) ELSE <<58>> \o ShowBound(sel[4]))
    [] sel[1] = "filter" -> <<63>> \o (IF sty.par THEN <<40>> \o ShowF(sel[2], sty) \o <<41>> ELSE ShowF(sel[2], sty))
    [] sel[1] = "path" -> ShowQuery(sel[2], sel[3], sty)
IsAtom(e) == e[1] \in {"lit", "q", "len", "lenp", "fn", "fq"}
\* an operand of a binary arithmetic or comparison operator of level lv, on its left ("L") or right ("R") side: with style
\* "min" only the parentheses the operator levels and left associativity require, otherwise around every compound operand
ShowOpnd(e, lv, side, sty) ==
  LET need == IF Prec(e) = 0 THEN FALSE
              ELSE IF ~sty.min THEN TRUE
              ELSE IF side = "L" THEN Prec(e) > lv ELSE Prec(e) >= lv
  IN IF need THEN <<40>> \o ShowF(e, sty) \o <<41>> ELSE ShowF(e, sty)
ShowArgs(args, i, sty) == IF i > Len(args) THEN <<>>
                          ELSE (IF i > 1 THEN <<44>> \o Sp(sty) ELSE <<>>) \o ShowF(args[i], sty) \o ShowArgs(args, i + 1, sty)
\* an operand of && (ctx "and"), || (ctx "or") or ! (ctx "not")
ShowOperandIn(e, ctx, sty) ==
  LET need == IF IsAtom(e) THEN FALSE
              ELSE IF ~sty.min THEN TRUE
              ELSE CASE ctx = "not" -> TRUE
                     [] ctx = "and" -> e[1] = "or"
                     [] ctx = "or" -> FALSE
  IN IF need THEN <<40>> \o ShowF(e, sty) \o <<41>> ELSE ShowF(e, sty)
ShowF(e, sty) ==
  CASE e[1] = "lit" ->
         (CASE e[2][1] = "null" -> <<110,117,108,108>>
            [] e[2][1] = "bool" -> (IF e[2][2] THEN <<116,114,117,101>> ELSE <<102,97,108,115,101>>)
            [] e[2][1] = "int" -> IntStr(e[2][2])
            [] e[2][1] = "rat" -> ShowNum(e[2])
            [] e[2][1] = "str" -> Quoted(e[2][2], sty))
    [] e[1] = "q" -> ShowQuery(e[2], e[3], sty)
    [] e[1] = "len" -> LengthCps \o <<40>> \o ShowF(e[2], sty) \o <<41>>
    [] e[1] = "lenp" -> ShowQuery(e[2], e[3], sty) \o <<46>> \o LengthCps
    [] e[1] = "cmp" -> ShowOpnd(e[3], Prec(e), "L", sty) \o Sp(sty) \o OpStr(e[2]) \o Sp(sty) \o ShowOpnd(e[4], Prec(e), "R", sty)
                       \* (operands that are atoms - all there were before the functions family - are rendered as they are)
    [] e[1] = "not" -> <<33>> \o ShowOperandIn(e[2], "not", sty)
    [] e[1] = "and" -> ShowOperandIn(e[2], "and", sty) \o <<32, 38, 38, 32>> \o ShowOperandIn(e[3], "and", sty)
    [] e[1] = "or" -> ShowOperandIn(e[2], "or", sty) \o <<32, 124, 124, 32>> \o ShowOperandIn(e[3], "or", sty)
    [] e[1] = "fn" -> FnNameCps(e[2]) \o <<40>> \o ShowArgs(e[3], 1, sty) \o <<41>>
    [] e[1] = "fq" -> ShowF(e[2], sty) \o ShowSegs(e[3], 1, sty)
    [] e[1] = "neg" -> <<45>> \o (IF Prec(e[2]) = 0 \/ (sty.min /\ Prec(e[2]) = 1) THEN ShowF(e[2], sty) ELSE <<40>> \o ShowF(e[2], sty) \o <<41>>)
    [] e[1] = "ar" -> ShowOpnd(e[3], Prec(e), "L", sty) \o ASp(sty) \o ArOpStr(e[2]) \o ASp(sty) \o ShowOpnd(e[4], Prec(e), "R", sty)
Show(segs, sty) == ShowQuery("root", segs, sty)
ShowTop(fe, segs, sty) == ShowF(fe, sty) \o ShowSegs(segs, 1, sty)      \* a function call as the whole expression

StyDot == [dot |-> TRUE, q |-> "s", sp |-> FALSE, par |-> TRUE, min |-> TRUE]
StyBrS == [dot |-> FALSE, q |-> "s", sp |-> FALSE, par |-> FALSE, min |-> FALSE]
StyBrD == [dot |-> FALSE, q |-> "d", sp |-> TRUE, par |-> TRUE, min |-> FALSE]
StyDotD == [dot |-> TRUE, q |-> "d", sp |-> TRUE, par |-> FALSE, min |-> TRUE]
=============================================================================
