-------------------------------- MODULE Events --------------------------------
(***************************************************************************)
(* The visitor event protocol (json_visitor): the grammar of well-formed   *)
(* event sequences as a pushdown automaton, and the value a complete       *)
(* sequence denotes.  "Grammatically well-formed" (property C08) = balanced *)
(* containers, keys alternating with values inside objects; the length a   *)
(* container DECLARES (begin_array(n) / begin_object(n)) may be right,     *)
(* wrong or absent - that is data, not grammar.                            *)
(*                                                                         *)
(* Events:  <<"ba", len>> <<"ea">> <<"bo", len>> <<"eo">> <<"key", bytes>> *)
(*          <<"val", v>>   with len a natural or -1 (= not declared) and   *)
(*          v a scalar of the binary data model (Cbor.tla header).         *)
(***************************************************************************)
EXTENDS Integers, Sequences, FiniteSets

NoLen == 0 - 1
\* parser stack: frames <<kind, items so far (values or <<key,value>> pairs), pending key or <<>>, declared length>>
InitStack == <<>>

\* may event e come next?  (st = stack, done = a complete top-level value has been seen)
Allowed(st, done, e) ==
  IF done THEN FALSE
  ELSE IF st = <<>> THEN e[1] \in {"ba", "bo", "val"}
  ELSE LET top == st[Len(st)] IN
       IF top[1] = "arr" THEN e[1] \in {"ba", "bo", "val", "ea"}
       ELSE IF top[3] = <<"nokey">> THEN e[1] \in {"key", "eo"}          \* object expecting a key (or its end)
            ELSE e[1] \in {"ba", "bo", "val"}                             \* object expecting the value of the pending key

\* deliver a finished value to the enclosing frame; returns <<stack, done, result>>
Deliver(st, v) ==
  IF st = <<>> THEN <<st, TRUE, v>>
  ELSE LET top == st[Len(st)] IN
       IF top[1] = "arr" THEN <<[st EXCEPT ![Len(st)] = <<"arr", Append(top[2], v), top[3], top[4]>>], FALSE, <<"none">>>>
       ELSE <<[st EXCEPT ![Len(st)] = <<"obj", Append(top[2], <<<<"tstr", top[3][2]>>, v>>), <<"nokey">>, top[4]>>], FALSE, <<"none">>>>

Step(st, e) ==   \* precondition: Allowed
  CASE e[1] = "ba" -> <<Append(st, <<"arr", <<>>, <<"nokey">>, e[2]>>), FALSE, <<"none">>>>
    [] e[1] = "bo" -> <<Append(st, <<"obj", <<>>, <<"nokey">>, e[2]>>), FALSE, <<"none">>>>
    [] e[1] = "key" -> <<[st EXCEPT ![Len(st)] = <<"obj", st[Len(st)][2], <<"key", e[2]>>, st[Len(st)][4]>>], FALSE, <<"none">>>>
    [] e[1] = "val" -> Deliver(st, e[2])
    [] e[1] = "ea" -> Deliver(SubSeq(st, 1, Len(st) - 1), <<"arr", st[Len(st)][2]>>)
    [] e[1] = "eo" -> Deliver(SubSeq(st, 1, Len(st) - 1), <<"map", st[Len(st)][2]>>)

\* does every container of the (complete) sequence declare its length correctly or not at all?
RECURSIVE LengthsRight(_, _, _)
LengthsRight(evs, i, st) ==   \* st: stack of <<declared, count, isobj>>
  IF i > Len(evs) THEN TRUE
  ELSE LET e == evs[i]
           bump(s) == IF s = <<>> THEN s ELSE [s EXCEPT ![Len(s)] = <<s[Len(s)][1], s[Len(s)][2] + 1, s[Len(s)][3]>>]
       IN CASE e[1] \in {"ba", "bo"} -> LengthsRight(evs, i + 1, Append(bump(st), <<e[2], 0, e[1] = "bo">>))
            [] e[1] = "val" -> LengthsRight(evs, i + 1, bump(st))
            [] e[1] = "key" -> LengthsRight(evs, i + 1, st)
            [] e[1] \in {"ea", "eo"} ->
                 LET top == st[Len(st)] IN      \* top[2] counts the items of an array / the members of an object
                 (top[1] = NoLen \/ top[1] = top[2]) /\ LengthsRight(evs, i + 1, SubSeq(st, 1, Len(st) - 1))
=============================================================================
