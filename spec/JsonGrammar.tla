----------------------------- MODULE JsonGrammar -----------------------------
(***************************************************************************)
(* Second, independent definition of "is an RFC 8259 JSON text": a         *)
(* grammar-directed recursive-descent recogniser that follows the ABNF of  *)
(* RFC 8259 sections 2-7 and the UTF-8 ABNF of RFC 3629 section 4 rule by  *)
(* rule.  TLC checks it equivalent to the pushdown machine of JsonText on  *)
(* every text in bound (MC_JsonEquiv) - the model-internal obligation that *)
(* makes JsonText trustworthy as an oracle.  Positions are 1-based; every  *)
(* recogniser returns the position after the construct, or 0 on failure.   *)
(***************************************************************************)
EXTENDS Naturals, Sequences

LOCAL At(t, i) == IF i >= 1 /\ i <= Len(t) THEN t[i] ELSE 0 - 1   \* -1 = end of input
LOCAL Dig(c) == c >= 48 /\ c <= 57
LOCAL Hex(c) == Dig(c) \/ (c >= 65 /\ c <= 70) \/ (c >= 97 /\ c <= 102)
LOCAL Tail1(c) == c >= 128 /\ c <= 191

RECURSIVE Ws(_, _)
Ws(t, i) == IF At(t, i) \in {32, 9, 10, 13} THEN Ws(t, i + 1) ELSE i     \* ws = *( %x20 / %x09 / %x0A / %x0D )

RECURSIVE Digits(_, _)
Digits(t, i) == IF Dig(At(t, i)) THEN Digits(t, i + 1) ELSE i

\* number = [ minus ] int [ frac ] [ exp ]
Number(t, i) ==
  LET a == IF At(t, i) = 45 THEN i + 1 ELSE i
      b == IF At(t, a) = 48 THEN a + 1                       \* int = zero / ( digit1-9 *DIGIT )
           ELSE IF At(t, a) >= 49 /\ At(t, a) <= 57 THEN Digits(t, a + 1) ELSE 0
  IN IF b = 0 THEN 0 ELSE
     LET c == IF At(t, b) = 46                                \* frac = decimal-point 1*DIGIT
              THEN (IF Dig(At(t, b + 1)) THEN Digits(t, b + 1) ELSE 0) ELSE b
     IN IF c = 0 THEN 0 ELSE
        IF At(t, c) \in {101, 69}                             \* exp = e [ minus / plus ] 1*DIGIT
        THEN LET d == IF At(t, c + 1) \in {43, 45} THEN c + 2 ELSE c + 1
             IN IF Dig(At(t, d)) THEN Digits(t, d) ELSE 0
        ELSE c

\* one unescaped character starting at i (RFC 3629 section 4 ABNF); 0 on failure
Unescaped(t, i) ==
  LET b == At(t, i) b1 == At(t, i + 1) b2 == At(t, i + 2) b3 == At(t, i + 3) IN
  IF b >= 32 /\ b <= 127 /\ b # 34 /\ b # 92 THEN i + 1
  ELSE IF b >= 194 /\ b <= 223 /\ Tail1(b1) THEN i + 2
  ELSE IF b = 224 /\ b1 >= 160 /\ b1 <= 191 /\ Tail1(b2) THEN i + 3
  ELSE IF b >= 225 /\ b <= 236 /\ Tail1(b1) /\ Tail1(b2) THEN i + 3
  ELSE IF b = 237 /\ b1 >= 128 /\ b1 <= 159 /\ Tail1(b2) THEN i + 3
  ELSE IF b >= 238 /\ b <= 239 /\ Tail1(b1) /\ Tail1(b2) THEN i + 3
  ELSE IF b = 240 /\ b1 >= 144 /\ b1 <= 191 /\ Tail1(b2) /\ Tail1(b3) THEN i + 4
  ELSE IF b >= 241 /\ b <= 243 /\ Tail1(b1) /\ Tail1(b2) /\ Tail1(b3) THEN i + 4
  ELSE IF b = 244 /\ b1 >= 128 /\ b1 <= 143 /\ Tail1(b2) /\ Tail1(b3) THEN i + 4
  ELSE 0

\* char = unescaped / escape ( " \ / b f n r t / uXXXX )
RECURSIVE Chars(_, _)
Chars(t, i) ==
  IF At(t, i) = 34 THEN i + 1
  ELSE IF At(t, i) = 92
       THEN IF At(t, i + 1) \in {34, 92, 47, 98, 102, 110, 114, 116} THEN Chars(t, i + 2)
            ELSE IF At(t, i + 1) = 117 /\ Hex(At(t, i + 2)) /\ Hex(At(t, i + 3)) /\ Hex(At(t, i + 4)) /\ Hex(At(t, i + 5))
                 THEN Chars(t, i + 6) ELSE 0
       ELSE LET j == Unescaped(t, i) IN IF j = 0 THEN 0 ELSE Chars(t, j)
String(t, i) == IF At(t, i) = 34 THEN Chars(t, i + 1) ELSE 0

LOCAL Lit(t, i, w) == IF \A k \in 1..Len(w) : At(t, i + k - 1) = w[k] THEN i + Len(w) ELSE 0

RECURSIVE Value(_, _), Elements(_, _), Members(_, _)
\* value = false / null / true / object / array / number / string
Value(t, i) ==
  LET c == At(t, i) IN
  IF c = 91 THEN LET j == Ws(t, i + 1) IN IF At(t, j) = 93 THEN j + 1 ELSE Elements(t, j)
  ELSE IF c = 123 THEN LET j == Ws(t, i + 1) IN IF At(t, j) = 125 THEN j + 1 ELSE Members(t, j)
  ELSE IF c = 34 THEN String(t, i)
  ELSE IF c = 116 THEN Lit(t, i, <<116, 114, 117, 101>>)
  ELSE IF c = 102 THEN Lit(t, i, <<102, 97, 108, 115, 101>>)
  ELSE IF c = 110 THEN Lit(t, i, <<110, 117, 108, 108>>)
  ELSE Number(t, i)
\* array = begin-array [ value *( value-separator value ) ] end-array
Elements(t, i) ==
  LET j == Value(t, i) IN IF j = 0 THEN 0 ELSE
  LET k == Ws(t, j) IN
  IF At(t, k) = 44 THEN Elements(t, Ws(t, k + 1))
  ELSE IF At(t, k) = 93 THEN k + 1 ELSE 0
\* object = begin-object [ member *( value-separator member ) ] end-object ; member = string name-separator value
Members(t, i) ==
  LET j == String(t, i) IN IF j = 0 THEN 0 ELSE
  LET k == Ws(t, j) IN IF At(t, k) # 58 THEN 0 ELSE
  LET v == Value(t, Ws(t, k + 1)) IN IF v = 0 THEN 0 ELSE
  LET e == Ws(t, v) IN
  IF At(t, e) = 44 THEN Members(t, Ws(t, e + 1))
  ELSE IF At(t, e) = 125 THEN e + 1 ELSE 0

\* JSON-text = ws value ws
IsJsonText(t) == LET j == Value(t, Ws(t, 1)) IN j # 0 /\ Ws(t, j) = Len(t) + 1
=============================================================================
