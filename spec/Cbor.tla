-------------------------------- MODULE Cbor --------------------------------
(***************************************************************************)
(* RFC 8949 (CBOR) reference decoder as total recursive operators over a   *)
(* byte sequence, written from section 3 (major types, argument encoding,  *)
(* indefinite lengths, tags, simple values and floats) and Appendix C      *)
(* (pseudocode for well-formedness).  Independent oracle for C07, and the  *)
(* "independent reference decoder" that reads encoder output in C06/C08.   *)
(*                                                                         *)
(*   Item(b, i)  ==  <<"ok", value, next>>  |  <<"err">>                   *)
(* decodes ONE data item starting at 1-based position i.                   *)
(*                                                                         *)
(* Values (binary data model, shared by the four format modules):          *)
(*   <<"uint", bs>>   unsigned integer, big-endian bytes without leading   *)
(*                    zeros (<<>> = 0) - TLC integers are 32-bit           *)
(*   <<"nint", bs>>   the negative integer -1 - n, n given as for uint     *)
(*   <<"bstr", bytes>>  <<"tstr", bytes>> (well-formed UTF-8)              *)
(*   <<"arr", seq>>   <<"map", seq of <<key, value>> >>                    *)
(*   <<"tag", bs, value>>   tag number as for uint                         *)
(*   <<"bool", b>> <<"null">> <<"undef">> <<"simple", n>>                  *)
(*   <<"f16", bytes2>> <<"f32", bytes4>> <<"f64", bytes8>>  raw IEEE bits  *)
(***************************************************************************)
EXTENDS Naturals, Sequences, FiniteSets

Huge == 100000000          \* stands for "longer than any input we ever build"

At(b, i) == IF i >= 1 /\ i <= Len(b) THEN b[i] ELSE 0 - 1
StripZeros(bs) == LET nz == {k \in 1..Len(bs) : bs[k] # 0} IN
                  IF nz = {} THEN <<>> ELSE SubSeq(bs, CHOOSE k \in nz : \A m \in nz : k <= m, Len(bs))
\* numeric value of a (stripped) big-endian byte sequence, saturating at Huge
RECURSIVE NumOf(_, _, _)
NumOf(bs, k, acc) == IF k > Len(bs) THEN acc
                     ELSE IF acc >= Huge \div 256 THEN Huge ELSE NumOf(bs, k + 1, acc * 256 + bs[k])
Num(bs) == NumOf(StripZeros(bs), 1, 0)

-----------------------------------------------------------------------------
(* UTF-8 well-formedness (RFC 3629 section 4 ABNF), for text strings       *)
Tail1(c) == c >= 128 /\ c <= 191
RECURSIVE Utf8Ok(_, _)
Utf8Ok(s, i) ==
  IF i > Len(s) THEN TRUE
  ELSE LET c == At(s, i) c1 == At(s, i + 1) c2 == At(s, i + 2) c3 == At(s, i + 3) IN
    IF c <= 127 THEN Utf8Ok(s, i + 1)
    ELSE IF c >= 194 /\ c <= 223 /\ Tail1(c1) THEN Utf8Ok(s, i + 2)
    ELSE IF c = 224 /\ c1 >= 160 /\ c1 <= 191 /\ Tail1(c2) THEN Utf8Ok(s, i + 3)
    ELSE IF ((c >= 225 /\ c <= 236) \/ c = 238 \/ c = 239) /\ Tail1(c1) /\ Tail1(c2) THEN Utf8Ok(s, i + 3)
    ELSE IF c = 237 /\ c1 >= 128 /\ c1 <= 159 /\ Tail1(c2) THEN Utf8Ok(s, i + 3)
    ELSE IF c = 240 /\ c1 >= 144 /\ c1 <= 191 /\ Tail1(c2) /\ Tail1(c3) THEN Utf8Ok(s, i + 4)
    ELSE IF c >= 241 /\ c <= 243 /\ Tail1(c1) /\ Tail1(c2) /\ Tail1(c3) THEN Utf8Ok(s, i + 4)
    ELSE IF c = 244 /\ c1 >= 128 /\ c1 <= 143 /\ Tail1(c2) /\ Tail1(c3) THEN Utf8Ok(s, i + 4)
    ELSE FALSE

-----------------------------------------------------------------------------
(* Section 3: the head.  Head(b,i) = <<"ok", major, ai, argbytes, next>>   *)
(* where argbytes is the big-endian argument (<<ai>> for ai < 24, <<>> for *)
(* ai = 31), or <<"err">> for a truncated head or reserved ai 28..30.      *)
ArgLen(ai) == CASE ai = 24 -> 1 [] ai = 25 -> 2 [] ai = 26 -> 4 [] ai = 27 -> 8 [] OTHER -> 0
CHead(b, i) ==
  IF i > Len(b) THEN <<"err">>
  ELSE LET ib == b[i]  major == ib \div 32  ai == ib % 32 IN
    IF ai >= 28 /\ ai <= 30 THEN <<"err">>
    ELSE IF ai < 24 THEN <<"ok", major, ai, <<ai>>, i + 1>>
    ELSE IF ai = 31 THEN <<"ok", major, ai, <<>>, i + 1>>
    ELSE LET n == ArgLen(ai) IN
         IF i + n > Len(b) THEN <<"err">> ELSE <<"ok", major, ai, SubSeq(b, i + 1, i + n), i + 1 + n>>

RECURSIVE Item(_, _), Items(_, _, _, _), IndefItems(_, _, _), Pairs(_, _, _, _), IndefPairs(_, _, _), Chunks(_, _, _, _)

\* n further items (definite array)
Items(b, i, n, acc) ==
  IF n = 0 THEN <<"ok", acc, i>>
  ELSE IF i > Len(b) THEN <<"err">>            \* also stops absurd claimed counts at once
  ELSE LET r == Item(b, i) IN IF r[1] = "err" THEN r ELSE Items(b, r[3], n - 1, Append(acc, r[2]))
\* items until the break code (indefinite array)
IndefItems(b, i, acc) ==
  IF At(b, i) = 255 THEN <<"ok", acc, i + 1>>
  ELSE LET r == Item(b, i) IN IF r[1] = "err" THEN r ELSE IndefItems(b, r[3], Append(acc, r[2]))
Pairs(b, i, n, acc) ==
  IF n = 0 THEN <<"ok", acc, i>>
  ELSE IF i > Len(b) THEN <<"err">>
  ELSE LET k == Item(b, i) IN IF k[1] = "err" THEN k
       ELSE LET v == Item(b, k[3]) IN IF v[1] = "err" THEN v ELSE Pairs(b, v[3], n - 1, Append(acc, <<k[2], v[2]>>))
IndefPairs(b, i, acc) ==
  IF At(b, i) = 255 THEN <<"ok", acc, i + 1>>
  ELSE LET k == Item(b, i) IN IF k[1] = "err" THEN k
       ELSE LET v == Item(b, k[3]) IN IF v[1] = "err" THEN v ELSE IndefPairs(b, v[3], Append(acc, <<k[2], v[2]>>))
\* section 3.2.3: chunks of an indefinite-length string: definite-length strings of the same major type
Chunks(b, i, major, acc) ==
  IF At(b, i) = 255 THEN <<"ok", acc, i + 1>>
  ELSE LET h == CHead(b, i) IN
    IF h[1] = "err" \/ h[2] # major \/ h[3] = 31 THEN <<"err">>
    ELSE LET n == Num(h[4]) IN
         IF h[5] + n - 1 > Len(b) THEN <<"err">>
         ELSE LET piece == SubSeq(b, h[5], h[5] + n - 1) IN
              IF major = 3 /\ ~Utf8Ok(piece, 1) THEN <<"err">>      \* each chunk is itself a text string
              ELSE Chunks(b, h[5] + n, major, acc \o piece)

Item(b, i) ==
  LET h == CHead(b, i) IN
  IF h[1] = "err" THEN <<"err">>
  ELSE LET major == h[2]  ai == h[3]  arg == h[4]  nx == h[5] IN
    CASE major = 0 -> IF ai = 31 THEN <<"err">> ELSE <<"ok", <<"uint", StripZeros(arg)>>, nx>>
      [] major = 1 -> IF ai = 31 THEN <<"err">> ELSE <<"ok", <<"nint", StripZeros(arg)>>, nx>>
      [] major = 2 \/ major = 3 ->
           IF ai = 31 THEN LET r == Chunks(b, nx, major, <<>>) IN
                           IF r[1] = "err" THEN r ELSE <<"ok", <<IF major = 2 THEN "bstr" ELSE "tstr", r[2]>>, r[3]>>
           ELSE LET n == Num(arg) IN
                IF nx + n - 1 > Len(b) THEN <<"err">>
                ELSE LET s == SubSeq(b, nx, nx + n - 1) IN
                     IF major = 3 /\ ~Utf8Ok(s, 1) THEN <<"err">>
                     ELSE <<"ok", <<IF major = 2 THEN "bstr" ELSE "tstr", s>>, nx + n>>
      [] major = 4 ->
           LET r == IF ai = 31 THEN IndefItems(b, nx, <<>>) ELSE Items(b, nx, Num(arg), <<>>) IN
           IF r[1] = "err" THEN r ELSE <<"ok", <<"arr", r[2]>>, r[3]>>
      [] major = 5 ->
           LET r == IF ai = 31 THEN IndefPairs(b, nx, <<>>) ELSE Pairs(b, nx, Num(arg), <<>>) IN
           IF r[1] = "err" THEN r ELSE <<"ok", <<"map", r[2]>>, r[3]>>
      [] major = 6 ->
           IF ai = 31 THEN <<"err">>
           ELSE LET r == Item(b, nx) IN IF r[1] = "err" THEN r ELSE <<"ok", <<"tag", StripZeros(arg), r[2]>>, r[3]>>
      [] major = 7 ->
           CASE ai = 20 -> <<"ok", <<"bool", FALSE>>, nx>>
             [] ai = 21 -> <<"ok", <<"bool", TRUE>>, nx>>
             [] ai = 22 -> <<"ok", <<"null">>, nx>>
             [] ai = 23 -> <<"ok", <<"undef">>, nx>>
             [] ai < 20 -> <<"ok", <<"simple", ai>>, nx>>
             [] ai = 24 -> IF arg[1] < 32 THEN <<"err">> ELSE <<"ok", <<"simple", arg[1]>>, nx>>   \* 3.3: two-byte form of 0..31 is not well-formed
             [] ai = 25 -> <<"ok", <<"f16", arg>>, nx>>
             [] ai = 26 -> <<"ok", <<"f32", arg>>, nx>>
             [] ai = 27 -> <<"ok", <<"f64", arg>>, nx>>
             [] ai = 31 -> <<"err">>                  \* break outside an indefinite-length item

\* whole-input decoding of the first data item
Decode(b) == Item(b, 1)

-----------------------------------------------------------------------------
(* Classification used by the conformance cases.                           *)
(* MappedValue(v): jsoncons documents a JSON-like image for v that this     *)
(* module can state (doc/ref/cbor/cbor.md).  For the rest only the verdict  *)
(* is compared (or nothing, where well-formed input may be refused).        *)
TransparentTags == {0, 1, 21, 22, 23, 32, 33, 34} \cup (6..15)
Transparent(tagbytes) == Len(StripZeros(tagbytes)) <= 1 /\ Num(tagbytes) \in TransparentTags      \* (a one-byte tag number; wider ones are never transparent)
RECURSIVE Plain(_)
Plain(v) ==   \* no construct whose jsoncons image is outside this module
  CASE v[1] = "arr" -> \A k \in 1..Len(v[2]) : Plain(v[2][k])
    [] v[1] = "map" -> /\ \A k \in 1..Len(v[2]) : v[2][k][1][1] = "tstr" /\ Plain(v[2][k][2])          \* text keys only
                       /\ \A k, m \in 1..Len(v[2]) : k # m => v[2][k][1] # v[2][m][1]                  \* no duplicate keys
    [] v[1] = "tag" -> IF Transparent(v[2]) THEN Plain(v[3]) ELSE TRUE      \* (see Image)
    [] v[1] = "simple" -> FALSE
    [] v[1] = "nint" -> Len(v[2]) < 8 \/ v[2][1] < 128          \* -1-n fits int64
    [] OTHER -> TRUE
(* A tag applies to exactly one data item (RFC 8949 3.4).  jsoncons maps the tags below onto a semantic tag of the value and leaves the  *)
(* value itself as it is (cbor.md: date-time 0, epoch 1, base-N hints 21-23, URI 32, base64url / base64 text 33 / 34; unassigned 6-15 are *)
(* ignored); every other tag may transform its content (bignums, decimal fractions, typed arrays, string references ...), whose image is  *)
(* stated elsewhere (BinTags / C06), so the tagged item is "any" here - but its siblings keep their predicted image.                      *)
RECURSIVE Image(_)
Image(v) ==
  CASE v[1] = "arr" -> <<"arr", [k \in 1..Len(v[2]) |-> Image(v[2][k])]>>
    [] v[1] = "map" -> <<"map", [k \in 1..Len(v[2]) |-> <<v[2][k][1], Image(v[2][k][2])>>]>>
    [] v[1] = "tag" -> IF Transparent(v[2]) THEN Image(v[3]) ELSE <<"any">>
    [] OTHER -> v
RECURSIVE HasSimple(_)
HasSimple(v) ==  \* well-formed, but a decoder may refuse it: unassigned simple values, and negative integers below
                 \* -2^63 (no 64-bit native representation; jsoncons documents no mapping for them)
  CASE v[1] = "arr" -> \E k \in 1..Len(v[2]) : HasSimple(v[2][k])
    [] v[1] = "map" -> \E k \in 1..Len(v[2]) : HasSimple(v[2][k][1]) \/ HasSimple(v[2][k][2])
    [] v[1] = "tag" -> HasSimple(v[3])
    [] v[1] = "simple" -> TRUE
    [] v[1] = "nint" -> Len(v[2]) = 8 /\ v[2][1] >= 128
    [] OTHER -> FALSE

-----------------------------------------------------------------------------
(* String references (tags 256 "stringref-namespace" and 25 "stringref",   *)
(* cbor.schmorp.de/stringref), which jsoncons emits with pack_strings:     *)
(* inside a namespace every byte/text string whose length is at least the  *)
(* minimum for the NEXT index (3 for index < 24, 4 < 256, 5 < 65536, 7     *)
(* beyond) is appended to the table in decoding order; tag 25 on an        *)
(* unsigned integer denotes the table entry with that index.               *)
MinRefLen(idx) == IF idx < 24 THEN 3 ELSE IF idx < 256 THEN 4 ELSE IF idx < 65536 THEN 5 ELSE 7
RECURSIVE Res(_, _), ResSeq(_, _, _, _), ResPairs(_, _, _, _)
\* Res(v, tbl) = <<v', tbl'>>
Res(v, tbl) ==
  CASE v[1] \in {"tstr", "bstr"} -> <<v, IF Len(v[2]) >= MinRefLen(Len(tbl)) THEN Append(tbl, v) ELSE tbl>>
    [] v[1] = "tag" /\ Num(v[2]) = 25 /\ v[3][1] = "uint" ->
         LET i == Num(v[3][2]) IN IF i < Len(tbl) THEN <<tbl[i + 1], tbl>> ELSE << <<"badref">>, tbl >>
    [] v[1] = "tag" /\ Num(v[2]) = 256 -> << Res(v[3], <<>>)[1], tbl >>      \* a nested namespace has its own table
    [] v[1] = "tag" -> LET r == Res(v[3], tbl) IN << <<"tag", v[2], r[1]>>, r[2] >>
    [] v[1] = "arr" -> LET r == ResSeq(v[2], 1, <<>>, tbl) IN << <<"arr", r[1]>>, r[2] >>
    [] v[1] = "map" -> LET r == ResPairs(v[2], 1, <<>>, tbl) IN << <<"map", r[1]>>, r[2] >>
    [] OTHER -> <<v, tbl>>
ResSeq(xs, k, acc, tbl) == IF k > Len(xs) THEN <<acc, tbl>> ELSE LET r == Res(xs[k], tbl) IN ResSeq(xs, k + 1, Append(acc, r[1]), r[2])
ResPairs(ps, k, acc, tbl) == IF k > Len(ps) THEN <<acc, tbl>>
                             ELSE LET rk == Res(ps[k][1], tbl)  rv == Res(ps[k][2], rk[2]) IN ResPairs(ps, k + 1, Append(acc, <<rk[1], rv[1]>>), rv[2])
\* outside any namespace nothing is registered or resolved
ResolveStringRefs(v) == IF v[1] = "tag" /\ Num(v[2]) = 256 THEN Res(v[3], <<>>)[1] ELSE v
=============================================================================
