#!/usr/bin/env python3
"""Converts jsoncons' JSONPath reference data (/repo/test/jsonpath/input/test_data/*.json) into
spec/validation/C12_ref.ndjson for spec/gen/MC_C12ref.tla, which evaluates spec/JsonPath.tla on
every case and compares with the documented result ("every document-shaped module is validated
against an authoritative corpus before it is trusted as an oracle", DESIGN 1.2).

Only the constructs the specification covers are converted; a case is skipped (and counted by
reason) when it uses anything else: regular expressions (=~), dot-number selectors, error cases,
expression selectors [(...)], object literals, numbers that do not fit TLC's 32-bit integers.
Functions family: function calls (in filters and as the whole expression, kind "top"), unary minus
and + - * / % are converted; binary operators are parsed with the operator levels of the "JsonCons
JSONPath" document (1 ! unary -, 3 * / %, 4 + -, 5 < <= > >=, 6 == !=, 7 &&, 8 ||, left associative);
non-integer numbers become normalised rationals ["rat", n, d].  The parser below reads expression TEXT into the abstract syntax of
JsonPath.tla (nested arrays = TLA+ tuples); it is a tool for validating the spec, not part of any check.

usage: c12_refdata.py [test_data_dir] > C12_ref.ndjson
"""
import json, sys, os, re, glob
from fractions import Fraction
from decimal import Decimal


class Skip(Exception):
    pass


def strip_comments(t):
    res = []; i = 0; ins = False
    while i < len(t):
        c = t[i]
        if ins:
            res.append(c)
            if c == '\\':
                res.append(t[i + 1]); i += 2; continue
            if c == '"':
                ins = False
            i += 1; continue
        if c == '"':
            ins = True; res.append(c); i += 1; continue
        if c == '/' and t[i + 1] == '/':
            while t[i] != '\n':
                i += 1
            continue
        if c == '/' and t[i + 1] == '*':
            i = t.index('*/', i) + 2
            continue
        res.append(c); i += 1
    return ''.join(res)


def cps(s):
    return [ord(c) for c in s]


SCALE = 1      # see main(): documents with non-integer numbers are retried with every number multiplied by 10^4


def num(v):
    """integers as before (scaled runs multiply by SCALE); with SCALE == 0 ("exact" mode of the functions family) a
    non-integer becomes the normalised rational ["rat", n, d]"""
    if SCALE == 0:
        x = Fraction(v) if not isinstance(v, float) else Fraction(Decimal(repr(v)))
        if abs(x.numerator) > 10**6 or x.denominator > 10**4:
            raise Skip('big-number')
        return ["int", x.numerator] if x.denominator == 1 else ["rat", x.numerator, x.denominator]
    x = v * SCALE
    if isinstance(x, (float, Decimal, Fraction)):
        if abs(float(x) - round(float(x))) > 1e-6:
            raise Skip('non-integer-number')
        x = int(round(float(x)))
    if abs(x) > 2 * 10**9:
        raise Skip('big-number')
    return ["int", x]


def wire(v):
    if v is None:
        return ["null"]
    if isinstance(v, bool):
        return ["bool", v]
    if isinstance(v, (int, float, Decimal)):
        return num(v)
    if isinstance(v, str):
        return ["str", cps(v)]
    if isinstance(v, list):
        return ["arr", [wire(x) for x in v]]
    if isinstance(v, dict):
        return ["obj", [[cps(k), wire(x)] for k, x in v.items()]]
    raise Skip('value')


class P:
    def __init__(self, s):
        self.s = s; self.i = 0

    def ws(self):
        while self.i < len(self.s) and self.s[self.i] in ' \t\r\n':
            self.i += 1

    def peek(self, n=1):
        return self.s[self.i:self.i + n]

    def eat(self, t):
        if self.s.startswith(t, self.i):
            self.i += len(t); return True
        return False

    def need(self, t):
        if not self.eat(t):
            raise Skip('syntax:expected %r at %d' % (t, self.i))

    def eof(self):
        return self.i >= len(self.s)

    # ---- names
    def quoted(self):
        q = self.s[self.i]; self.i += 1; out = []
        while True:
            if self.eof():
                raise Skip('syntax:unterminated string')
            c = self.s[self.i]; self.i += 1
            if c == q:
                return ''.join(out)
            if c == '\\':
                d = self.s[self.i]; self.i += 1
                if d == 'u':
                    h = self.s[self.i:self.i + 4]; self.i += 4
                    cp = int(h, 16)
                    if 0xD800 <= cp < 0xDC00 and self.s[self.i:self.i + 2] == '\\u':
                        lo = int(self.s[self.i + 2:self.i + 6], 16); self.i += 6
                        cp = 0x10000 + ((cp - 0xD800) << 10) + (lo - 0xDC00)
                    out.append(chr(cp))
                else:
                    out.append({'b': '\b', 'f': '\f', 'n': '\n', 'r': '\r', 't': '\t'}.get(d, d))
            else:
                out.append(c)

    def unquoted(self):
        m = re.compile(r'[A-Za-z_\u0080-\U0010ffff][A-Za-z0-9_\u0080-\U0010ffff]*').match(self.s, self.i)
        if not m:
            raise Skip('unquoted-name-form')
        self.i = m.end()
        return m.group(0)

    def integer(self):
        m = re.compile(r'-?[0-9]+').match(self.s, self.i)
        if not m:
            return None
        self.i = m.end()
        return int(m.group(0))

    # ---- segments
    def segments(self, in_filter=False):
        segs = []
        while True:
            save = self.i
            self.ws()
            if self.eat('..'):
                self.ws()
                if self.eat('*'):
                    segs.append(["desc", [["wild"]]])
                elif self.peek() == '[':
                    segs.append(["desc", self.bracket()])
                else:
                    if self.eof():
                        raise Skip('bare-recursive-descent')
                    segs.append(["desc", [["name", cps(self.unquoted())]]])
            elif self.peek() == '.' :
                self.i += 1
                self.ws()
                if self.eat('*'):
                    segs.append(["child", [["wild"]]])
                elif self.peek() in ('"', "'"):
                    segs.append(["child", [["name", cps(self.quoted())]]])
                elif self.peek().isdigit() or self.peek() == '-':
                    raise Skip('dot-number')
                else:
                    name = self.unquoted()
                    if self.peek() == '(':
                        raise Skip('function')
                    if in_filter and name == 'length':
                        segs.append('LENGTH')
                    else:
                        if name == 'length':
                            raise Skip('length-property-as-selector')
                        segs.append(["child", [["name", cps(name)]]])
            elif self.peek() == '[':
                segs.append(["child", self.bracket()])
            elif self.peek() == '^':
                self.i += 1
                segs.append(["parent"])
            else:
                self.i = save
                return segs

    def bracket(self):
        self.need('[')
        sels = []
        while True:
            self.ws()
            sels.append(self.selector())
            self.ws()
            if self.eat(','):
                continue
            self.need(']')
            return sels

    def bound(self):
        n = self.integer()
        return ["abs"] if n is None else ["v", n]

    def selector(self):
        c = self.peek()
        if c == '*':
            self.i += 1; return ["wild"]
        if c in ('"', "'"):
            return ["name", cps(self.quoted())]
        if c == '?':
            self.i += 1
            self.ws()
            return ["filter", self.expr()]
        if c in '@$':
            rel = "cur" if c == '@' else "root"
            self.i += 1
            return ["path", rel, self.segments()]
        if c == '(':
            raise Skip('expression-selector')
        save = self.i
        a = self.integer()
        self.ws()
        if self.peek() == ':':
            self.i += 1
            s = ["abs"] if a is None else ["v", a]
            e = self.bound()
            st = ["abs"]
            if self.eat(':'):
                st = self.bound()
            if any(b[0] == 'v' and abs(b[1]) > 10**6 for b in (s, e, st)):
                def big(b):
                    return b if b[0] != 'v' or abs(b[1]) <= 10**6 else (["max"] if b[1] > 0 else ["min"])
                s, e, st = big(s), big(e), big(st)
            return ["slice", s, e, st]
        if a is None:
            raise Skip('syntax:selector at %d' % save)
        return ["idx", a]

    # ---- filter expressions.  Operator levels ([ext] "JsonCons JSONPath", operator table): 1 ! and unary -,
    #      3 * / %, 4 + -, 5 < <= > >=, 6 == !=, 7 &&, 8 ||; binary operators associate to the left.
    BIN = [(8, ['||']), (7, ['&&']), (6, ['==', '!=']), (5, ['<=', '>=', '<', '>']), (4, ['+', '-']), (3, ['*', '/', '%'])]

    def expr(self, li=0):
        if li == len(self.BIN):
            return self.unary()
        lv, ops = self.BIN[li]
        a = self.expr(li + 1)
        while True:
            self.ws()
            if self.peek(2) == '=~':
                raise Skip('regex')
            hit = None
            for op in ops:
                if self.s.startswith(op, self.i):
                    if op in ('<', '>') and self.peek(2) in ('<=', '>='):
                        continue
                    if op == '!=' or op == '==' or op not in ('=',):
                        hit = op
                        break
            if hit is None:
                if li == 0 and self.peek() == '=' and self.peek(2) != '==':
                    raise Skip('syntax:single =')
                return a
            self.i += len(hit)
            b = self.expr(li + 1)
            if hit == '||':
                a = ["or", a, b]
            elif hit == '&&':
                a = ["and", a, b]
            elif hit in ('==', '!=', '<', '<=', '>', '>='):
                a = ["cmp", hit, a, b]
            else:
                global USED_ARITH
                USED_ARITH = True
                a = ["ar", hit, a, b]

    def unary(self):
        self.ws()
        if self.peek() == '!' and self.peek(2) != '!=':
            self.i += 1
            return ["not", self.unary()]
        if self.peek() == '-' and not re.match(r'-[0-9]', self.s[self.i:self.i + 2]):
            global USED_ARITH
            USED_ARITH = True
            self.i += 1
            return ["neg", self.unary()]
        return self.atom()

    def json_array(self):
        # a JSON array literal (elements: numbers, strings, true/false/null, arrays)
        self.need('[')
        out = []
        self.ws()
        if self.eat(']'):
            return ["arr", out]
        while True:
            self.ws()
            if self.peek() == '[':
                out.append(self.json_array())
            elif self.peek() == '"':
                out.append(["str", cps(self.quoted())])
            else:
                m = re.compile(r'-?[0-9]+(\.[0-9]+)?([eE][-+]?[0-9]+)?|true|false|null').match(self.s, self.i)
                if not m:
                    raise Skip('json-literal')
                self.i = m.end()
                t = m.group(0)
                out.append(["null"] if t == 'null' else ["bool", t == 'true'] if t in ('true', 'false') else num(Decimal(t) if (m.group(1) or m.group(2)) else int(t)))
            self.ws()
            if self.eat(','):
                continue
            self.need(']')
            return ["arr", out]

    def function(self, name):
        # name( already consumed up to and including the parenthesis
        global USED_FN
        USED_FN = True
        args = []
        self.ws()
        if not self.eat(')'):
            while True:
                args.append(self.expr())
                self.ws()
                if self.eat(','):
                    continue
                self.need(')')
                break
        known = {'abs': 1, 'avg': 1, 'ceil': 1, 'contains': 2, 'ends_with': 2, 'floor': 1, 'keys': 1, 'length': 1, 'max': 1, 'min': 1,
                 'prod': 1, 'starts_with': 2, 'sum': 1, 'to_number': 1, 'tokenize': 2}
        if name not in known:
            raise Skip('unknown-function')
        if len(args) != known[name]:
            raise Skip('arity')
        return ["len", args[0]] if name == 'length' else ["fn", name, args]

    def atom(self):
        self.ws()
        c = self.peek()
        if c == '(':
            self.i += 1
            e = self.expr()
            self.ws(); self.need(')')
            return e
        if c in '@$':
            rel = "cur" if c == '@' else "root"
            self.i += 1
            segs = self.segments(in_filter=True)
            if 'LENGTH' in segs:
                if segs[-1] != 'LENGTH' or segs.count('LENGTH') > 1:
                    raise Skip('length-property-inside-path')
                return ["lenp", rel, segs[:-1]]
            return ["q", rel, segs]
        if c in ('"', "'"):
            return ["lit", ["str", cps(self.quoted())]]
        for w, v in (('true', ["bool", True]), ('false', ["bool", False]), ('null', ["null"])):
            if self.s.startswith(w, self.i) and not re.match(r'[A-Za-z0-9_(]', self.s[self.i + len(w):self.i + len(w) + 1] or ' '):
                self.i += len(w)
                return ["lit", v]
        m = re.compile(r'-?[0-9]+(\.[0-9]+)?([eE][-+]?[0-9]+)?').match(self.s, self.i)
        if m:
            self.i = m.end()
            return ["lit", num(Decimal(m.group(0)) if (m.group(1) or m.group(2)) else int(m.group(0)))]
        if c == '[':
            return ["lit", self.json_array()]
        if c == '{':
            raise Skip('json-literal')
        m = re.compile(r'[A-Za-z_][A-Za-z0-9_]*').match(self.s, self.i)
        if m and self.s[m.end():m.end() + 1] == '(':
            self.i = m.end() + 1
            f = self.function(m.group(0))
            segs = self.segments(in_filter=True)
            if 'LENGTH' in segs:
                raise Skip('length-property-inside-path')
            return ["fq", f, segs] if segs else f
        raise Skip('syntax:atom at %d' % self.i)


USED_FN = False
USED_ARITH = False


def parse_query(s):
    """-> ("path", segs) for a rooted path, ("top", fe, segs) for a function call as the whole expression"""
    p = P(s)
    p.ws()
    if not p.eat('$'):
        m = re.compile(r'[A-Za-z_][A-Za-z0-9_]*').match(p.s, p.i)
        if m and p.s[m.end():m.end() + 1] == '(':
            p.i = m.end() + 1
            fe = p.function(m.group(0))
            segs = p.segments()
            p.ws()
            if not p.eof():
                raise Skip('syntax:trailing %r' % s[p.i:])
            if any(x == 'LENGTH' for x in segs):
                raise Skip('length')
            return ("top", fe, segs)
        raise Skip('not-rooted')
    segs = p.segments()
    p.ws()
    if not p.eof():
        raise Skip('syntax:trailing %r' % s[p.i:])
    if any(x == 'LENGTH' for x in segs):
        raise Skip('length')
    return ("path", segs)


def convert(f, g, c):
    """one reference case -> record.  Cases without functions / arithmetic are converted exactly as before (integers, or
    every number scaled by 10^4); cases of the functions family are converted in "exact" mode (SCALE 0: rationals)."""
    global SCALE, USED_FN, USED_ARITH
    if 'error' in c:
        raise Skip('error-case')
    if 'result' not in c and 'path' not in c:
        raise Skip('no-expectation')
    last = None
    for SCALE in (1, 10000, 0):
        USED_FN = USED_ARITH = False
        try:
            if SCALE == 10000 and 'length' in c['expression']:
                raise Skip('non-integer-number')        # lengths do not scale with the numbers
            q = parse_query(c['expression'])
            fnfam = USED_FN or USED_ARITH or q[0] == 'top'
            if fnfam and SCALE != 0:
                continue                                # functions family: exact mode only
            if not fnfam and SCALE == 0:
                raise last or Skip('non-integer-number')
            rec = {'src': '%s: %s' % (os.path.basename(f), c['expression']), 'scale': SCALE, 'kind': q[0],
                   'doc': wire(g['given']), 'segs': q[1] if q[0] == 'path' else q[2], 'fe': q[1] if q[0] == 'top' else ["lit", ["null"]],
                   'nodups': bool(c.get('nodups')), 'sort': bool(c.get('sort')),
                   'hasv': 'result' in c, 'hasp': 'path' in c,
                   'want': [wire(x) for x in c.get('result', [])],
                   'paths': [cps(x) for x in c.get('path', [])]}
            return rec
        except Skip as e:
            k = str(e).split(':')[0]
            if k == 'non-integer-number' and SCALE in (1, 10000):
                last = e
                continue
            raise
    raise last or Skip('non-integer-number')


def main():
    d = sys.argv[1] if len(sys.argv) > 1 else '/repo/test/jsonpath/input/test_data'
    skipped = {}
    n = 0
    for f in sorted(glob.glob(os.path.join(d, '*.json'))):
        groups = json.loads(strip_comments(open(f, encoding='utf-8').read()), parse_float=Decimal)
        for g in groups:
            for c in g['cases']:
                try:
                    print(json.dumps(convert(f, g, c)))
                    n += 1
                except Skip as e:
                    k = str(e).split(':')[0]
                    skipped[k] = skipped.get(k, 0) + 1
    print('converted %d cases; skipped %s' % (n, json.dumps(skipped, sort_keys=True)), file=sys.stderr)


if __name__ == '__main__':
    main()
