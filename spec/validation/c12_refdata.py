#!/usr/bin/env python3
"""Converts jsoncons' JSONPath reference data (/repo/test/jsonpath/input/test_data/*.json) into
spec/validation/C12_ref.ndjson for spec/gen/MC_C12ref.tla, which evaluates spec/JsonPath.tla on
every case and compares with the documented result ("every document-shaped module is validated
against an authoritative corpus before it is trusted as an oracle", DESIGN 1.2).

Only the constructs the specification covers are converted; a case is skipped (and counted by
reason) when it uses anything else: non-integer numbers, regular expressions, arithmetic,
functions other than length, top-level function calls, dot-number selectors, error cases,
expression selectors [(...)].  The parser below reads expression TEXT into the abstract syntax of
JsonPath.tla (nested arrays = TLA+ tuples); it is a tool for validating the spec, not part of any check.

usage: c12_refdata.py [test_data_dir] > C12_ref.ndjson
"""
import json, sys, os, re, glob


class Skip(Exception):
    pass


def strip_comments(t):
    res = []; i = 0; ins = False
    while i < len(t):
        c = t[i]
        if ins:
            res.append(c)
            if c == '\\':
                res.append(t[i + 1]); i += 2; continue
            if c == '"':
                ins = False
            i += 1; continue
        if c == '"':
            ins = True; res.append(c); i += 1; continue
        if c == '/' and t[i + 1] == '/':
            while t[i] != '\n':
                i += 1
            continue
        if c == '/' and t[i + 1] == '*':
            i = t.index('*/', i) + 2
            continue
        res.append(c); i += 1
    return ''.join(res)


def cps(s):
    return [ord(c) for c in s]


SCALE = 1      # see main(): documents with non-integer numbers are retried with every number multiplied by 10^4


def num(v):
    x = v * SCALE
    if isinstance(x, float):
        if abs(x - round(x)) > 1e-6:
            raise Skip('non-integer-number')
        x = int(round(x))
    if abs(x) > 2 * 10**9:
        raise Skip('big-number')
    return ["int", x]


def wire(v):
    if v is None:
        return ["null"]
    if isinstance(v, bool):
        return ["bool", v]
    if isinstance(v, (int, float)):
        return num(v)
    if isinstance(v, str):
        return ["str", cps(v)]
    if isinstance(v, list):
        return ["arr", [wire(x) for x in v]]
    if isinstance(v, dict):
        return ["obj", [[cps(k), wire(x)] for k, x in v.items()]]
    raise Skip('value')


class P:
    def __init__(self, s):
        self.s = s; self.i = 0

    def ws(self):
        while self.i < len(self.s) and self.s[self.i] in ' \t\r\n':
            self.i += 1

    def peek(self, n=1):
        return self.s[self.i:self.i + n]

    def eat(self, t):
        if self.s.startswith(t, self.i):
            self.i += len(t); return True
        return False

    def need(self, t):
        if not self.eat(t):
            raise Skip('syntax:expected %r at %d' % (t, self.i))

    def eof(self):
        return self.i >= len(self.s)

    # ---- names
    def quoted(self):
        q = self.s[self.i]; self.i += 1; out = []
        while True:
            if self.eof():
                raise Skip('syntax:unterminated string')
            c = self.s[self.i]; self.i += 1
            if c == q:
                return ''.join(out)
            if c == '\\':
                d = self.s[self.i]; self.i += 1
                if d == 'u':
                    h = self.s[self.i:self.i + 4]; self.i += 4
                    cp = int(h, 16)
                    if 0xD800 <= cp < 0xDC00 and self.s[self.i:self.i + 2] == '\\u':
                        lo = int(self.s[self.i + 2:self.i + 6], 16); self.i += 6
                        cp = 0x10000 + ((cp - 0xD800) << 10) + (lo - 0xDC00)
                    out.append(chr(cp))
                else:
                    out.append({'b': '\b', 'f': '\f', 'n': '\n', 'r': '\r', 't': '\t'}.get(d, d))
            else:
                out.append(c)

    def unquoted(self):
        m = re.compile(r'[A-Za-z_\u0080-\U0010ffff][A-Za-z0-9_\u0080-\U0010ffff]*').match(self.s, self.i)
        if not m:
            raise Skip('unquoted-name-form')
        self.i = m.end()
        return m.group(0)

    def integer(self):
        m = re.compile(r'-?[0-9]+').match(self.s, self.i)
        if not m:
            return None
        self.i = m.end()
        return int(m.group(0))

    # ---- segments
    def segments(self, in_filter=False):
        segs = []
        while True:
            save = self.i
            self.ws()
            if self.eat('..'):
                self.ws()
                if self.eat('*'):
                    segs.append(["desc", [["wild"]]])
                elif self.peek() == '[':
                    segs.append(["desc", self.bracket()])
                else:
                    if self.eof():
                        raise Skip('bare-recursive-descent')
                    segs.append(["desc", [["name", cps(self.unquoted())]]])
            elif self.peek() == '.' :
                self.i += 1
                self.ws()
                if self.eat('*'):
                    segs.append(["child", [["wild"]]])
                elif self.peek() in ('"', "'"):
                    segs.append(["child", [["name", cps(self.quoted())]]])
                elif self.peek().isdigit() or self.peek() == '-':
                    raise Skip('dot-number')
                else:
                    name = self.unquoted()
                    if self.peek() == '(':
                        raise Skip('function')
                    if in_filter and name == 'length':
                        segs.append('LENGTH')
                    else:
                        if name == 'length':
                            raise Skip('length-property-as-selector')
                        segs.append(["child", [["name", cps(name)]]])
            elif self.peek() == '[':
                segs.append(["child", self.bracket()])
            elif self.peek() == '^':
                self.i += 1
                segs.append(["parent"])
            else:
                self.i = save
                return segs

    def bracket(self):
        self.need('[')
        sels = []
        while True:
            self.ws()
            sels.append(self.selector())
            self.ws()
            if self.eat(','):
                continue
            self.need(']')
            return sels

    def bound(self):
        n = self.integer()
        return ["abs"] if n is None else ["v", n]

    def selector(self):
        c = self.peek()
        if c == '*':
            self.i += 1; return ["wild"]
        if c in ('"', "'"):
            return ["name", cps(self.quoted())]
        if c == '?':
            self.i += 1
            self.ws()
            return ["filter", self.expr()]
        if c in '@$':
            rel = "cur" if c == '@' else "root"
            self.i += 1
            return ["path", rel, self.segments()]
        if c == '(':
            raise Skip('expression-selector')
        save = self.i
        a = self.integer()
        self.ws()
        if self.peek() == ':':
            self.i += 1
            s = ["abs"] if a is None else ["v", a]
            e = self.bound()
            st = ["abs"]
            if self.eat(':'):
                st = self.bound()
            if any(b[0] == 'v' and abs(b[1]) > 10**6 for b in (s, e, st)):
                def big(b):
                    return b if b[0] != 'v' or abs(b[1]) <= 10**6 else (["max"] if b[1] > 0 else ["min"])
                s, e, st = big(s), big(e), big(st)
            return ["slice", s, e, st]
        if a is None:
            raise Skip('syntax:selector at %d' % save)
        return ["idx", a]

    # ---- filter expressions:  or > and > not > comparison > atom
    def expr(self):
        a = self.and_()
        while True:
            self.ws()
            if self.eat('||'):
                a = ["or", a, self.and_()]
            else:
                return a

    def and_(self):
        a = self.not_()
        while True:
            self.ws()
            if self.eat('&&'):
                a = ["and", a, self.not_()]
            else:
                return a

    def not_(self):
        self.ws()
        if self.peek() == '!' and self.peek(2) != '!=':
            self.i += 1
            return ["not", self.not_()]
        return self.cmp()

    def cmp(self):
        a = self.atom()
        self.ws()
        for op in ('==', '!=', '<=', '>=', '<', '>'):
            if self.eat(op):
                b = self.atom()
                return ["cmp", op, a, b]
        if self.peek(2) == '=~':
            raise Skip('regex')
        if self.peek() in '+-*/%' and self.peek(2) not in ('||', '&&'):
            raise Skip('arithmetic')
        if self.peek() == '=':
            raise Skip('syntax:single =')
        return a

    def atom(self):
        self.ws()
        c = self.peek()
        if c == '(':
            self.i += 1
            e = self.expr()
            self.ws(); self.need(')')
            return e
        if c in '@$':
            rel = "cur" if c == '@' else "root"
            self.i += 1
            segs = self.segments(in_filter=True)
            if 'LENGTH' in segs:
                if segs[-1] != 'LENGTH' or segs.count('LENGTH') > 1:
                    raise Skip('length-property-inside-path')
                return ["lenp", rel, segs[:-1]]
            return ["q", rel, segs]
        if c in ('"', "'"):
            return ["lit", ["str", cps(self.quoted())]]
        for w, v in (('true', ["bool", True]), ('false', ["bool", False]), ('null', ["null"])):
            if self.s.startswith(w, self.i) and not re.match(r'[A-Za-z0-9_(]', self.s[self.i + len(w):self.i + len(w) + 1] or ' '):
                self.i += len(w)
                return ["lit", v]
        m = re.compile(r'-?[0-9]+(\.[0-9]+)?([eE][-+]?[0-9]+)?').match(self.s, self.i)
        if m:
            self.i = m.end()
            return ["lit", num(float(m.group(0)) if (m.group(1) or m.group(2)) else int(m.group(0)))]
        if c in '[{':
            raise Skip('json-literal')
        m = re.compile(r'[A-Za-z_][A-Za-z0-9_]*').match(self.s, self.i)
        if m and self.s[m.end():m.end() + 1] == '(':
            if m.group(0) != 'length':
                raise Skip('function')
            self.i = m.end() + 1
            arg = self.expr()
            self.ws(); self.need(')')
            return ["len", arg]
        raise Skip('syntax:atom at %d' % self.i)


def parse_query(s):
    p = P(s)
    p.ws()
    if not p.eat('$'):
        raise Skip('not-rooted')
    segs = p.segments()
    p.ws()
    if not p.eof():
        raise Skip('syntax:trailing %r' % s[p.i:])
    if any(x == 'LENGTH' for x in segs):
        raise Skip('length')
    return segs


def main():
    d = sys.argv[1] if len(sys.argv) > 1 else '/repo/test/jsonpath/input/test_data'
    skipped = {}
    n = 0
    for f in sorted(glob.glob(os.path.join(d, '*.json'))):
        groups = json.loads(strip_comments(open(f, encoding='utf-8').read()))
        for g in groups:
            for c in g['cases']:
                global SCALE
                for SCALE in (1, 10000):
                    try:
                        if 'error' in c:
                            raise Skip('error-case')
                        if 'result' not in c and 'path' not in c:
                            raise Skip('no-expectation')
                        if SCALE != 1 and 'length' in c['expression']:
                            raise Skip('non-integer-number')        # lengths do not scale with the numbers
                        rec = {'src': '%s: %s' % (os.path.basename(f), c['expression']), 'scale': SCALE,
                               'doc': wire(g['given']), 'segs': parse_query(c['expression']),
                               'nodups': bool(c.get('nodups')), 'sort': bool(c.get('sort')),
                               'hasv': 'result' in c, 'hasp': 'path' in c,
                               'want': [wire(x) for x in c.get('result', [])],
                               'paths': [cps(x) for x in c.get('path', [])]}
                        print(json.dumps(rec))
                        n += 1
                        break
                    except Skip as e:
                        k = str(e).split(':')[0]
                        if k == 'non-integer-number' and SCALE == 1:
                            continue
                        skipped[k] = skipped.get(k, 0) + 1
                        break
    print('converted %d cases; skipped %s' % (n, json.dumps(skipped, sort_keys=True)), file=sys.stderr)


if __name__ == '__main__':
    main()
