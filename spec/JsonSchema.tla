------------------------------ MODULE JsonSchema ------------------------------
(***************************************************************************)
(* JSON Schema validation for the unambiguous core vocabulary of           *)
(*   "d4"    Draft 4      draft-zyp-json-schema-04 / draft-fge-json-schema-validation-00 *)
(*   "d6"    Draft 6      draft-wright-json-schema-01 / -validation-01     *)
(*   "d7"    Draft 7      draft-handrews-json-schema-01 / -validation-01   *)
(*   "d2019" 2019-09      draft-handrews-json-schema-02 / -validation-02   *)
(*   "d2020" 2020-12      draft-bhutton-json-schema-00 / -validation-00    *)
(* written from those documents (clause numbers are quoted at each         *)
(* operator; "V" = the validation document, "C" = the core document of the *)
(* dialect).  It is an oracle for the VERDICT only:                        *)
(*        Valid(d, root, v)  in  {"ok", "bad", "loop"}                      *)
(* Annotations are modelled exactly as far as the verdict depends on them  *)
(* (C 2019-09 section 9.3.2.4 / 9.3.1.3, C 2020-12 section 11: the sets of *)
(* instance member names / array indices "evaluated" by adjacent and       *)
(* in-place keywords).                                                     *)
(*                                                                         *)
(* Schemas and instances are JsonValue values (tagged tuples; objects are  *)
(* functions, so nothing here can depend on member order).  Numbers are    *)
(* small integers <<"int", n>> and exact decimals <<"dec", m, e>> with one *)
(* or two fraction digits (section "Numbers" below).  Strings are          *)
(* code-point sequences (V: "length of a string is the number of its       *)
(* characters as defined by RFC 8259").                                    *)
(*                                                                         *)
(* Not modelled (never generated, see notes/C11.md): format, pattern,      *)
(* patternProperties with patterns outside the literal vocabulary of       *)
(* section "Patterns" below, content*, numbers with more than two fraction *)
(* digits or an exponent, $id that changes the base URI, non-local         *)
(* references, $recursiveRef / $dynamicRef, $vocabulary.                   *)
(***************************************************************************)
EXTENDS JsonPointer, Integers, TLC

Dialects == <<"d4", "d6", "d7", "d2019", "d2020">>
Rank(d) == CASE d = "d4" -> 4 [] d = "d6" -> 6 [] d = "d7" -> 7 [] d = "d2019" -> 8 [] d = "d2020" -> 9

(* Keyword and type names as code-point sequences (JSON member names).     *)
StrTab ==
  "type" :> <<116,121,112,101>> @@
  "enum" :> <<101,110,117,109>> @@
  "const" :> <<99,111,110,115,116>> @@
  "multipleOf" :> <<109,117,108,116,105,112,108,101,79,102>> @@
  "maximum" :> <<109,97,120,105,109,117,109>> @@
  "minimum" :> <<109,105,110,105,109,117,109>> @@
  "exclusiveMaximum" :> <<101,120,99,108,117,115,105,118,101,77,97,120,105,109,117,109>> @@
  "exclusiveMinimum" :> <<101,120,99,108,117,115,105,118,101,77,105,110,105,109,117,109>> @@
  "maxLength" :> <<109,97,120,76,101,110,103,116,104>> @@
  "minLength" :> <<109,105,110,76,101,110,103,116,104>> @@
  "maxItems" :> <<109,97,120,73,116,101,109,115>> @@
  "minItems" :> <<109,105,110,73,116,101,109,115>> @@
  "uniqueItems" :> <<117,110,105,113,117,101,73,116,101,109,115>> @@
  "maxProperties" :> <<109,97,120,80,114,111,112,101,114,116,105,101,115>> @@
  "minProperties" :> <<109,105,110,80,114,111,112,101,114,116,105,101,115>> @@
  "required" :> <<114,101,113,117,105,114,101,100>> @@
  "properties" :> <<112,114,111,112,101,114,116,105,101,115>> @@
  "patternProperties" :> <<112,97,116,116,101,114,110,80,114,111,112,101,114,116,105,101,115>> @@
  "additionalProperties" :> <<97,100,100,105,116,105,111,110,97,108,80,114,111,112,101,114,116,105,101,115>> @@
  "items" :> <<105,116,101,109,115>> @@
  "additionalItems" :> <<97,100,100,105,116,105,111,110,97,108,73,116,101,109,115>> @@
  "prefixItems" :> <<112,114,101,102,105,120,73,116,101,109,115>> @@
  "contains" :> <<99,111,110,116,97,105,110,115>> @@
  "minContains" :> <<109,105,110,67,111,110,116,97,105,110,115>> @@
  "maxContains" :> <<109,97,120,67,111,110,116,97,105,110,115>> @@
  "propertyNames" :> <<112,114,111,112,101,114,116,121,78,97,109,101,115>> @@
  "dependencies" :> <<100,101,112,101,110,100,101,110,99,105,101,115>> @@
  "dependentRequired" :> <<100,101,112,101,110,100,101,110,116,82,101,113,117,105,114,101,100>> @@
  "dependentSchemas" :> <<100,101,112,101,110,100,101,110,116,83,99,104,101,109,97,115>> @@
  "allOf" :> <<97,108,108,79,102>> @@
  "anyOf" :> <<97,110,121,79,102>> @@
  "oneOf" :> <<111,110,101,79,102>> @@
  "not" :> <<110,111,116>> @@
  "if" :> <<105,102>> @@
  "then" :> <<116,104,101,110>> @@
  "else" :> <<101,108,115,101>> @@
  "$ref" :> <<36,114,101,102>> @@
  "$defs" :> <<36,100,101,102,115>> @@
  "definitions" :> <<100,101,102,105,110,105,116,105,111,110,115>> @@
  "$anchor" :> <<36,97,110,99,104,111,114>> @@
  "$id" :> <<36,105,100>> @@
  "id" :> <<105,100>> @@
  "unevaluatedProperties" :> <<117,110,101,118,97,108,117,97,116,101,100,80,114,111,112,101,114,116,105,101,115>> @@
  "unevaluatedItems" :> <<117,110,101,118,97,108,117,97,116,101,100,73,116,101,109,115>> @@
  "null" :> <<110,117,108,108>> @@
  "boolean" :> <<98,111,111,108,101,97,110>> @@
  "integer" :> <<105,110,116,101,103,101,114>> @@
  "number" :> <<110,117,109,98,101,114>> @@
  "string" :> <<115,116,114,105,110,103>> @@
  "array" :> <<97,114,114,97,121>> @@
  "object" :> <<111,98,106,101,99,116>>
S(name) == StrTab[name]

-----------------------------------------------------------------------------
(* Which keywords a dialect defines.  A member of a schema object that the *)
(* dialect does not define is not a keyword of that dialect and has no     *)
(* effect on the verdict (d4 C 5.x "...MAY be extended; unknown keywords   *)
(* SHOULD be ignored"; V 2019-09 / C 2020-12 4.3.1 "unknown keywords       *)
(* SHOULD be treated as annotations").                                     *)
Since(k) ==
  CASE k \in {"const", "contains", "propertyNames"} -> 6                   \* V d6 6.24, 6.14, 6.22
    [] k \in {"if", "then", "else"} -> 7                                   \* V d7 6.6
    [] k \in {"$defs", "$anchor", "dependentRequired", "dependentSchemas", "minContains", "maxContains",
              "unevaluatedProperties", "unevaluatedItems"} -> 8            \* C 2019-09 8.2.3, 8.2.5, 9.2.2.4, 9.3.x; V 6.4.4-5, 6.5.4
    [] k = "prefixItems" -> 9                                              \* C 2020-12 10.3.1.1
    [] OTHER -> 4
Until(k) ==
  CASE k = "additionalItems" -> 8                                          \* replaced by items/prefixItems in 2020-12
    [] k = "dependencies" -> 7                                             \* split into dependent* in 2019-09
    [] OTHER -> 9
Active(d, k) == Since(k) <= Rank(d) /\ Rank(d) <= Until(k)

-----------------------------------------------------------------------------
(* Numbers.  A JSON number is written either without a fraction / exponent  *)
(* part - <<"int", n>>, the integer n - or with a fraction part of one or   *)
(* two digits - <<"dec", m, e>>, e \in {-1, -2}, the decimal number         *)
(* m * 10^e (<<"dec", 25, -1>> is 2.5, <<"dec", 125, -2>> is 1.25,           *)
(* <<"dec", 20, -1>> is 2.0, <<"dec", 150, -2>> is 1.50).  The two forms     *)
(* are different JSON TEXTS; whether they are different VALUES is stated by *)
(* the specifications:                                                      *)
(*  - equality (enum, const, uniqueItems): C d4 3.6 "JSON value equality",  *)
(*    C d6 4.3 / d7, 2019-09 4.2.3 / 2020-12 4.2.2 "Instance equality": two *)
(*    numbers are equal iff they "have the same mathematical value"         *)
(*    (1 = 1.0 = 1.00, 1.5 = 1.50);                                         *)
(*  - "type": "integer": C d4 3.5 "integer: JSON number without a fraction  *)
(*    or exponent part" (1.0 is NOT an integer in Draft 4); V d6 6.25 /     *)
(*    d7 6.1.1 / 2019-09, 2020-12 6.1.1 "integer which matches any number   *)
(*    with a zero fractional part" (1.0 IS an integer from Draft 6 on);     *)
(*  - minimum / maximum / exclusive*: comparison of mathematical values;    *)
(*  - multipleOf: "valid only if division by this keyword's value results   *)
(*    in an integer" (mathematical division).                               *)
(* All arithmetic here is exact: Hun(x) is the value of x in hundredths     *)
(* (both sides of every comparison are multiplied by the common             *)
(* denominator 100), an integer of small magnitude.                         *)
JDec(m, e) == <<"dec", m, e>>
IsNum(v) == v[1] \in {"int", "dec"}
Hun(x) == IF x[1] = "int" THEN 100 * x[2] ELSE IF x[3] = 0 - 1 THEN 10 * x[2] ELSE x[2]
NumLt(a, b) == Hun(a) < Hun(b)           \* a < b   <=>  100 a < 100 b
NumLe(a, b) == Hun(a) <= Hun(b)
Integral(x) == x[1] = "int" \/ (Hun(x) % 100) = 0          \* zero fractional part
\* a / b is an integer (b > 0):  (100 a) / (100 b) = a / b
DividesExactly(a, b) == (Hun(a) % Hun(b)) = 0
(* The number with h hundredths in its shortest spelling; Canon(v) spells    *)
(* every number of a value that way, so that JSON value equality (same       *)
(* mathematical value for numbers, element-wise for arrays, member-wise for  *)
(* objects) is plain equality of the canonical forms.                        *)
FromHun(h) == IF (h % 100) = 0 THEN <<"int", h \div 100>>
              ELSE IF (h % 10) = 0 THEN <<"dec", h \div 10, 0 - 1>> ELSE <<"dec", h, 0 - 2>>
RECURSIVE Canon(_)
RECURSIVE CanonSeq(_)
CanonSeq(q) == IF q = <<>> THEN <<>> ELSE <<Canon(Head(q))>> \o CanonSeq(Tail(q))
Canon(v) == CASE v[1] = "dec" -> FromHun(Hun(v))
              [] v[1] = "arr" -> <<"arr", CanonSeq(v[2])>>
              [] v[1] = "obj" -> <<"obj", [k \in DOMAIN v[2] |-> Canon(v[2][k])]>>
              [] OTHER -> v
JsonEq(a, b) == Canon(a) = Canon(b)
(* Binary floating point.  RFC 8259 section 6 lets an implementation limit   *)
(* the precision of numbers and names IEEE 754 binary64 as the interoperable *)
(* choice; V 4.2 "Validation of numeric instances" (every dialect) warns     *)
(* that what an implementation can represent is bounded by its numeric data  *)
(* types and demands no decimal arithmetic.  A validator that stores numbers *)
(* as binary64 sees 0.1 as 0.1000000000000000055..., and whether 0.3 or 1    *)
(* "is a multiple of" 0.1 then depends on how the division / remainder is    *)
(* rounded.  Comparison and equality do not suffer (decimal -> nearest       *)
(* binary64 is monotonic, and injective at these magnitudes); multipleOf     *)
(* does.  Its verdict is representation-independent exactly when instance    *)
(* and divisor are both exactly representable - here: multiples of 1/4       *)
(* (x.0, x.5, x.25, x.75), whose quotient and remainder are exact too - or   *)
(* the instance is 0.  MultipleOfExact says so; Valid itself always gives    *)
(* the mathematical verdict, the generator declares the (instance, divisor)  *)
(* pairs that are not MultipleOfExact don't-care.                            *)
Dyadic(x) == (Hun(x) % 25) = 0
MultipleOfExact(a, b) == Hun(a) = 0 \/ (Dyadic(a) /\ Dyadic(b))

-----------------------------------------------------------------------------
(* Patterns.  "patternProperties" (V d4 5.4.4, d6 6.19, d7 6.5.5, C 2019-09 *)
(* 9.3.2.2, 2020-12 10.3.2.2): each member name of the keyword's value       *)
(* "SHOULD be a valid regular expression, according to the ECMA 262 regular  *)
(* expression dialect"; a pattern matches a member name when the regular     *)
(* expression matches ANYWHERE in the name ("regular expressions are not     *)
(* implicitly anchored", V d4 3.3 / d7 4.3 / C 2019-09 6.4).  No regular-    *)
(* expression engine is modelled: the vocabulary is restricted to            *)
(*        [ "^" ] lower-case-letter* [ "$" ]                                 *)
(* whose ECMA-262 meaning (no flags: "^" / "$" assert the start / the end of *)
(* the input, a letter matches itself) is stated directly:                   *)
(*    "^lit$"  the name equals lit          "^lit"  lit is a prefix          *)
(*    "lit$"   lit is a suffix              "lit"   lit occurs in the name   *)
(* (so "" , "^", "$" match every name and "^$" the empty name only).         *)
(* A pattern outside the vocabulary is outside the domain of this module     *)
(* (PatternsInVocabulary; EvObject answers "loop" = never run).              *)
PatAnchS(p) == Len(p) >= 1 /\ p[1] = 94                                         \* "^"
PatAnchE(p) == Len(p) >= (IF PatAnchS(p) THEN 2 ELSE 1) /\ p[Len(p)] = 36        \* "$"
PatLit(p) == SubSeq(p, (IF PatAnchS(p) THEN 2 ELSE 1), (IF PatAnchE(p) THEN Len(p) - 1 ELSE Len(p)))
PatInVocabulary(p) == \A j \in 1..Len(PatLit(p)) : PatLit(p)[j] \in 97..122
PatMatches(p, name) ==
  LET lit == PatLit(p)
      n == Len(lit)
      m == Len(name)
  IN IF PatAnchS(p) /\ PatAnchE(p) THEN name = lit
     ELSE IF PatAnchS(p) THEN n <= m /\ SubSeq(name, 1, n) = lit
     ELSE IF PatAnchE(p) THEN n <= m /\ SubSeq(name, m - n + 1, m) = lit
     ELSE \E j \in 0..(m - n) : SubSeq(name, j + 1, j + n) = lit

-----------------------------------------------------------------------------
(* Results: status + the annotation sets needed by unevaluated*.           *)
(*   st = "ok" | "bad" | "loop"  ("loop": the evaluation re-enters the     *)
(*   same schema on the same instance through references.  C d6/d7 8.3.1 / *)
(*   2019-09 8.2.4.3 / 2020-12 9.4.1: "A schema MUST NOT be run into an    *)
(*   infinite loop against an instance ... the behavior is undefined":     *)
(*   such (schema, instance) pairs are don't-care and are never run)       *)
(*   p  = instance member names evaluated by a successful (sub)schema      *)
(*   i  = instance array positions (1-based) evaluated                     *)
(* A failing schema contributes no annotations (C 2019-09 7.7.1.2:         *)
(* "annotations are not retained for failing schemas").                    *)
Pass == [st |-> "ok", p |-> {}, i |-> {}]
FailR == [st |-> "bad", p |-> {}, i |-> {}]
LoopR == [st |-> "loop", p |-> {}, i |-> {}]
Of(b) == IF b THEN Pass ELSE FailR
OkWith(P, I) == [st |-> "ok", p |-> P, i |-> I]
\* every result in the set must pass; annotations are collected from all of them
Conj(rs) == IF \E r \in rs : r.st = "loop" THEN LoopR
            ELSE IF \E r \in rs : r.st = "bad" THEN FailR
            ELSE OkWith(UNION { r.p : r \in rs }, UNION { r.i : r \in rs })
\* conjunction of child-instance results: their annotations belong to the children, not to this instance
ConjKids(rs) == IF \E r \in rs : r.st = "loop" THEN LoopR ELSE IF \E r \in rs : r.st = "bad" THEN FailR ELSE Pass

-----------------------------------------------------------------------------
(* V 6.1.1 (all dialects) "type": primitive types; an integer is also a    *)
(* number.  Draft 4 (C d4 3.5): an integer is a number WRITTEN without a    *)
(* fraction or exponent part; Draft 6 on (V d6 6.25, d7+ 6.1.1): any number *)
(* with a zero fractional part.                                            *)
TypeIs(d, name, v) ==
  CASE name = S("null") -> v[1] = "null"
    [] name = S("boolean") -> v[1] = "bool"
    [] name = S("integer") -> v[1] = "int" \/ (v[1] = "dec" /\ Rank(d) >= 6 /\ Integral(v))
    [] name = S("number") -> IsNum(v)
    [] name = S("string") -> v[1] = "str"
    [] name = S("array") -> v[1] = "arr"
    [] name = S("object") -> v[1] = "obj"
    [] OTHER -> FALSE
TypeOk(d, t, v) == IF t[1] = "str" THEN TypeIs(d, t[2], v)
                   ELSE \E j \in 1..Len(t[2]) : TypeIs(d, t[2][j][2], v)      \* array form: valid if it matches any listed type
SeqElems(a) == { a[j] : j \in 1..Len(a) }
\* a schema is an object; from Draft 6 on also a boolean (C d6 4.4).  In Draft 4 the booleans allowed for
\* additionalProperties / additionalItems are keyword values, not schemas.
IsSchemaVal(d, x) == x[1] = "obj" \/ (x[1] = "bool" /\ Rank(d) >= 6)

-----------------------------------------------------------------------------
(* Subschema positions of a schema document (C: the keywords whose values  *)
(* are schemas, arrays of schemas, or maps of schemas).  Used to resolve    *)
(* plain-name fragments and to decide that a JSON Pointer reference ends   *)
(* at a schema.                                                            *)
OneSchemaKw == <<"additionalProperties", "additionalItems", "items", "contains", "propertyNames", "not", "if", "then",
                 "else", "unevaluatedProperties", "unevaluatedItems">>
SeqSchemaKw == <<"allOf", "anyOf", "oneOf", "items", "prefixItems">>
MapSchemaKw == <<"properties", "patternProperties", "$defs", "definitions", "dependentSchemas", "dependencies">>
\* "definitions" is a keyword up to Draft 7 only.  From 2019-09 on it is "no longer an official keyword" (meta-schema
\* $comment); a reference into it points at a possible non-schema, which C 2020-12 9.4.2 leaves undefined.
IsContainerKw(d, k) == IF k = "definitions" THEN Rank(d) <= 7 ELSE Active(d, k)

RECURSIVE Subs(_, _)
Subs(d, s) ==
  IF s[1] # "obj" THEN {s}
  ELSE LET f == s[2]
           one == UNION { IF S(OneSchemaKw[n]) \in DOMAIN f /\ IsContainerKw(d, OneSchemaKw[n]) /\ IsSchemaVal(d, f[S(OneSchemaKw[n])])
                          THEN Subs(d, f[S(OneSchemaKw[n])]) ELSE {} : n \in 1..Len(OneSchemaKw) }
           many == UNION { IF S(SeqSchemaKw[n]) \in DOMAIN f /\ IsContainerKw(d, SeqSchemaKw[n]) /\ f[S(SeqSchemaKw[n])][1] = "arr"
                           THEN UNION { Subs(d, x) : x \in SeqElems(f[S(SeqSchemaKw[n])][2]) } ELSE {} : n \in 1..Len(SeqSchemaKw) }
           maps == UNION { IF S(MapSchemaKw[n]) \in DOMAIN f /\ IsContainerKw(d, MapSchemaKw[n]) /\ f[S(MapSchemaKw[n])][1] = "obj"
                           THEN UNION { IF IsSchemaVal(d, f[S(MapSchemaKw[n])][2][k]) THEN Subs(d, f[S(MapSchemaKw[n])][2][k]) ELSE {}
                                        : k \in DOMAIN f[S(MapSchemaKw[n])][2] } ELSE {} : n \in 1..Len(MapSchemaKw) }
       IN {s} \cup one \cup many \cup maps

(* Plain-name fragment a subschema declares: "$anchor": "x" (C 2019-09     *)
(* 8.2.3), "$id": "#x" (C d6/d7 9.2.1 location-independent identifiers),   *)
(* "id": "#x" (C d4 7.2).  <<>> = none.                                    *)
AnchorName(d, s) ==
  IF s[1] # "obj" THEN <<>>
  ELSE IF Rank(d) >= 8 THEN (IF S("$anchor") \in DOMAIN s[2] /\ s[2][S("$anchor")][1] = "str" THEN s[2][S("$anchor")][2] ELSE <<>>)
  ELSE LET k == IF d = "d4" THEN S("id") ELSE S("$id") IN
       IF k \in DOMAIN s[2] /\ s[2][k][1] = "str" /\ Len(s[2][k][2]) >= 2 /\ s[2][k][2][1] = 35 THEN Tail(s[2][k][2]) ELSE <<>>

(* "$ref" (C d4 7, d6/d7 8, 2019-09 8.2.4.1, 2020-12 8.2.3.1) restricted   *)
(* to same-document references:  "#" (the document root),  "#/..." (a JSON *)
(* Pointer in the fragment, RFC 6901 section 6; the pointers used contain  *)
(* no characters that need percent-encoding), "#name" (plain-name          *)
(* fragment).  Err when the reference does not identify exactly one schema.*)
ResolveRef(d, root, r) ==
  IF r = <<35>> THEN Ok(root)
  ELSE IF Len(r) >= 2 /\ r[1] = 35 /\ r[2] = 47 THEN
    LET pp == ParsePtr(Tail(r)) IN
    IF ~IsOk(pp) THEN Err
    ELSE LET g == Get(root, pp[2]) IN IF IsOk(g) /\ IsSchemaVal(d, g[2]) THEN g ELSE Err
  ELSE IF Len(r) >= 2 /\ r[1] = 35 THEN
    LET c == { x \in Subs(d, root) : AnchorName(d, x) = Tail(r) } IN
    IF Cardinality(c) = 1 THEN Ok(CHOOSE x \in c : TRUE) ELSE Err
  ELSE Err

-----------------------------------------------------------------------------
(* Assertion keywords on one instance (V section 6 of every dialect; the    *)
(* numbers are d7's, the text is the same in all five unless noted).       *)
\* 6.4.3 uniqueItems: no two elements are equal (JSON value equality: [1, 1.0] has a duplicate)
Distinct(a) == Cardinality({ Canon(a[j]) : j \in 1..Len(a) }) = Len(a)
NumOk(d, f, v) ==      \* 6.2.1 multipleOf, 6.2.2-5 maximum / exclusiveMaximum / minimum / exclusiveMinimum
  LET has(k) == S(k) \in DOMAIN f
      at(k) == f[S(k)]
  IN IsNum(v) =>
     /\ has("multipleOf") => DividesExactly(v, at("multipleOf"))
     /\ IF d = "d4"
        THEN \* V d4 5.1.2/5.1.3: exclusiveMaximum/Minimum are booleans modifying maximum/minimum
             /\ has("maximum") => IF has("exclusiveMaximum") /\ at("exclusiveMaximum") = JBool(TRUE)
                                  THEN NumLt(v, at("maximum")) ELSE NumLe(v, at("maximum"))
             /\ has("minimum") => IF has("exclusiveMinimum") /\ at("exclusiveMinimum") = JBool(TRUE)
                                  THEN NumLt(at("minimum"), v) ELSE NumLe(at("minimum"), v)
        ELSE \* V d6+ 6.2-6.5: four independent numeric keywords
             /\ has("maximum") => NumLe(v, at("maximum"))
             /\ has("minimum") => NumLe(at("minimum"), v)
             /\ has("exclusiveMaximum") => NumLt(v, at("exclusiveMaximum"))
             /\ has("exclusiveMinimum") => NumLt(at("exclusiveMinimum"), v)
\* size bounds are non-negative integers; from Draft 6 on that includes 2.0 (a number with a zero fractional part)
SizeLe(n, c) == 100 * n <= Hun(c)
SizeGe(n, c) == 100 * n >= Hun(c)
StrOk(f, v) ==         \* 6.3.1 maxLength, 6.3.2 minLength (characters, not bytes or UTF-16 units)
  v[1] = "str" => /\ S("maxLength") \in DOMAIN f => SizeLe(Len(v[2]), f[S("maxLength")])
                  /\ S("minLength") \in DOMAIN f => SizeGe(Len(v[2]), f[S("minLength")])
ArrOk(f, v) ==         \* 6.4.1 maxItems, 6.4.2 minItems, 6.4.3 uniqueItems
  v[1] = "arr" => /\ S("maxItems") \in DOMAIN f => SizeLe(Len(v[2]), f[S("maxItems")])
                  /\ S("minItems") \in DOMAIN f => SizeGe(Len(v[2]), f[S("minItems")])
                  /\ (S("uniqueItems") \in DOMAIN f /\ f[S("uniqueItems")] = JBool(TRUE)) => Distinct(v[2])
ObjOk(d, f, v) ==      \* 6.5.1 maxProperties, 6.5.2 minProperties, 6.5.3 required, dependentRequired (V 2019-09 6.5.4)
  v[1] = "obj" =>
    /\ S("maxProperties") \in DOMAIN f => SizeLe(Cardinality(DOMAIN v[2]), f[S("maxProperties")])
    /\ S("minProperties") \in DOMAIN f => SizeGe(Cardinality(DOMAIN v[2]), f[S("minProperties")])
    /\ S("required") \in DOMAIN f => \A x \in SeqElems(f[S("required")][2]) : x[2] \in DOMAIN v[2]
    /\ (S("dependentRequired") \in DOMAIN f /\ Active(d, "dependentRequired")) =>
          \A k \in DOMAIN f[S("dependentRequired")][2] :
             k \in DOMAIN v[2] => \A x \in SeqElems(f[S("dependentRequired")][2][k][2]) : x[2] \in DOMAIN v[2]
AnyOk(d, f, v) ==      \* 6.1.1 type, 6.1.2 enum ("equal to one of the elements"), 6.1.3 const (d6+; "equal to the value")
  /\ S("type") \in DOMAIN f => TypeOk(d, f[S("type")], v)
  /\ S("enum") \in DOMAIN f => Canon(v) \in { Canon(x) : x \in SeqElems(f[S("enum")][2]) }
  /\ (S("const") \in DOMAIN f /\ Active(d, "const")) => JsonEq(v, f[S("const")])

-----------------------------------------------------------------------------
(* The evaluator.  Ev(d, root, s, v, seen):                                 *)
(*   d dialect, root the schema document (references are resolved in it),  *)
(*   s the schema being applied, v the instance,                           *)
(*   seen = the schemas entered through a reference on THIS instance and   *)
(*   not yet left (re-entering one of them means the evaluation would not  *)
(*   terminate: result "loop").  Descending into a child instance resets   *)
(*   seen, because the instance gets strictly smaller.                     *)
RECURSIVE Ev(_, _, _, _, _)
RECURSIVE EvList(_, _, _, _, _)
\* results of a sequence of schemas applied in place, as a real tuple (evaluated once each)
EvList(d, root, ss, v, seen) ==
  IF ss = <<>> THEN <<>> ELSE <<Ev(d, root, Head(ss), v, seen)>> \o EvList(d, root, Tail(ss), v, seen)

EvRef(d, root, r, v, seen) ==
  LET t == ResolveRef(d, root, r) IN
  IF ~IsOk(t) THEN LoopR                                 \* unresolvable: outside the domain (never generated)
  ELSE IF t[2] \in seen THEN LoopR
  ELSE Ev(d, root, t[2], v, seen \cup {t[2]})

EvObject(d, root, s, v, seen) ==
  LET f == s[2]
      has(k) == S(k) \in DOMAIN f /\ Active(d, k)
      at(k) == f[S(k)]
      here(x) == Ev(d, root, x, v, seen)                 \* in-place application (same instance)
      kid(x, w) == Ev(d, root, x, w, {})                 \* application to a child instance
      isA == v[1] = "arr"
      isO == v[1] = "obj"
      n == IF isA THEN Len(v[2]) ELSE 0
      keys == IF isO THEN DOMAIN v[2] ELSE {}
      \* ---- assertions
      assertions == Of(AnyOk(d, f, v) /\ NumOk(d, f, v) /\ StrOk(f, v) /\ ArrOk(f, v) /\ ObjOk(d, f, v))
      \* ---- object applicators
      \* properties (V d4 5.4.4 / d7 6.5.4 / C 2019-09 9.3.2.1): every instance member with a name in "properties"
      \* validates against the corresponding schema; annotation: the matched names
      pnames == IF has("properties") THEN DOMAIN at("properties")[2] ELSE {}
      rProps == IF has("properties") /\ isO
                THEN LET rs == { kid(at("properties")[2][k], v[2][k]) : k \in keys \cap pnames } IN
                     IF ConjKids(rs).st = "ok" THEN {OkWith(keys \cap pnames, {})} ELSE {ConjKids(rs)}
                ELSE {}
      \* patternProperties (V d4 5.4.4 / d7 6.5.5 / C 2019-09 9.3.2.2 / 2020-12 10.3.2.2): for every instance member and
      \* every pattern that matches its name, the member VALUE validates against that pattern's schema (a child
      \* application: what the subschema evaluates inside the value says nothing about this object);
      \* annotation: the member names matched by any pattern
      pats == IF has("patternProperties") THEN DOMAIN at("patternProperties")[2] ELSE {}
      patsOk == \A p \in pats : PatInVocabulary(p)
      pmatch == { k \in keys : \E p \in pats : PatMatches(p, k) }
      rPat == IF has("patternProperties") /\ isO
              THEN IF ~patsOk THEN {LoopR}                                   \* outside the domain (never generated)
                   ELSE LET rs == { kid(at("patternProperties")[2][q[1]], v[2][q[2]]) : q \in { z \in pats \X keys : PatMatches(z[1], z[2]) } } IN
                        IF ConjKids(rs).st = "ok" THEN {OkWith(pmatch, {})} ELSE {ConjKids(rs)}
              ELSE {}
      \* additionalProperties (d4 5.4.4 / d7 6.5.6 / C 2019-09 9.3.2.3): applies to the members matched neither by a name in
      \* the sibling "properties" nor by a pattern of the sibling "patternProperties"; annotation: those names
      addl == keys \ (pnames \cup pmatch)
      rAddl == IF has("additionalProperties") /\ isO
               THEN LET rs == { kid(at("additionalProperties"), v[2][k]) : k \in addl } IN
                    IF ConjKids(rs).st = "ok" THEN {OkWith(addl, {})} ELSE {ConjKids(rs)}
               ELSE {}
      \* propertyNames (d6 6.22 / C 2019-09 9.3.2.5): every member NAME, as a string instance, validates
      rPNames == IF has("propertyNames") /\ isO
                 THEN {ConjKids({ kid(at("propertyNames"), JStr(k)) : k \in keys })} ELSE {}
      \* dependencies (d4 5.4.5 / d7 6.5.7): for each named member present in the instance - array value: the
      \* listed members must be present; schema value: the whole instance validates against it (in place)
      rDeps == IF has("dependencies") /\ isO
               THEN { IF at("dependencies")[2][k][1] = "arr"
                      THEN Of(\A x \in SeqElems(at("dependencies")[2][k][2]) : x[2] \in keys)
                      ELSE here(at("dependencies")[2][k]) : k \in keys \cap DOMAIN at("dependencies")[2] }
               ELSE {}
      \* dependentSchemas (C 2019-09 9.2.2.4): in-place application for each named member that is present
      rDepS == IF has("dependentSchemas") /\ isO
               THEN { here(at("dependentSchemas")[2][k]) : k \in keys \cap DOMAIN at("dependentSchemas")[2] } ELSE {}
      \* ---- array applicators
      \* d4 5.3.1 / d7 6.4.1-2 / C 2019-09 9.3.1.1-2: "items" a schema: every element; an array: element j against
      \* items[j]; "additionalItems": elements beyond the items array (ignored unless "items" is an array).
      \* C 2020-12 10.3.1.1-2: "prefixItems" positional, "items" everything after the prefixItems.
      itemsIsArr == has("items") /\ at("items")[1] = "arr"
      npre == IF d = "d2020" THEN (IF has("prefixItems") THEN Len(at("prefixItems")[2]) ELSE 0)
              ELSE (IF itemsIsArr THEN Len(at("items")[2]) ELSE 0)
      m == IF npre < n THEN npre ELSE n
      preSeq == IF d = "d2020" THEN (IF has("prefixItems") THEN at("prefixItems")[2] ELSE <<>>)
                ELSE (IF itemsIsArr THEN at("items")[2] ELSE <<>>)
      rPre == IF isA /\ preSeq # <<>>
              THEN LET r == ConjKids({ kid(preSeq[j], v[2][j]) : j \in 1..m }) IN
                   IF r.st = "ok" THEN {OkWith({}, 1..m)} ELSE {r}
              ELSE {}
      restKw == IF d = "d2020" THEN (IF has("items") THEN "items" ELSE "")
                ELSE IF has("items") /\ ~itemsIsArr THEN "items"
                ELSE IF itemsIsArr /\ has("additionalItems") THEN "additionalItems" ELSE ""
      rRest == IF isA /\ restKw # ""
               THEN LET r == ConjKids({ kid(at(restKw), v[2][j]) : j \in (m + 1)..n }) IN
                    IF r.st = "ok" THEN {OkWith({}, IF d = "d2020" \/ restKw = "additionalItems" THEN (m + 1)..n ELSE 1..n)} ELSE {r}
               ELSE {}
      \* contains (d6 6.14): at least one element validates.  V 2019-09 6.4.4-5 / C 9.3.1.4: the number of
      \* matching elements must be >= minContains (default 1) and <= maxContains; minContains 0 makes
      \* "contains" always pass.  C 2020-12 10.3.1.3: the matching positions are evaluated (annotation).
      cres == IF has("contains") /\ isA THEN [j \in 1..n |-> kid(at("contains"), v[2][j])] ELSE <<>>
      hits == { j \in 1..Len(cres) : cres[j].st = "ok" }
      cmin == IF has("minContains") THEN at("minContains") ELSE JInt(1)
      rCont == IF has("contains") /\ isA
               THEN IF \E j \in 1..Len(cres) : cres[j].st = "loop" THEN {LoopR}
                    ELSE IF SizeGe(Cardinality(hits), cmin) /\ (has("maxContains") => SizeLe(Cardinality(hits), at("maxContains")))
                         THEN {OkWith({}, IF d = "d2020" THEN hits ELSE {})} ELSE {FailR}
               ELSE {}
      \* ---- in-place applicators (d4 5.5.3-6 / d7 6.7 / C 2019-09 9.2.1): annotations of passing branches are kept
      rAll == IF has("allOf") THEN SeqElems(EvList(d, root, at("allOf")[2], v, seen)) ELSE {}
      anyRs == IF has("anyOf") THEN EvList(d, root, at("anyOf")[2], v, seen) ELSE <<>>
      rAny == IF has("anyOf")
              THEN IF \E j \in 1..Len(anyRs) : anyRs[j].st = "loop" THEN {LoopR}
                   ELSE IF \E j \in 1..Len(anyRs) : anyRs[j].st = "ok"
                        THEN {Conj({ anyRs[j] : j \in { x \in 1..Len(anyRs) : anyRs[x].st = "ok" } })} ELSE {FailR}
              ELSE {}
      oneRs == IF has("oneOf") THEN EvList(d, root, at("oneOf")[2], v, seen) ELSE <<>>
      oneHits == { j \in 1..Len(oneRs) : oneRs[j].st = "ok" }
      rOne == IF has("oneOf")
              THEN IF \E j \in 1..Len(oneRs) : oneRs[j].st = "loop" THEN {LoopR}
                   ELSE IF Cardinality(oneHits) = 1 THEN {oneRs[CHOOSE j \in oneHits : TRUE]} ELSE {FailR}
              ELSE {}
      notR == IF has("not") THEN here(at("not")) ELSE Pass
      rNot == IF has("not") THEN {IF notR.st = "loop" THEN LoopR ELSE Of(notR.st = "bad")} ELSE {}
      \* if / then / else (d7 6.6 / C 2019-09 9.2.2): "if" never fails the instance by itself; its annotations
      \* are kept when it passes; "then"/"else" without "if" are ignored
      ifR == IF has("if") THEN here(at("if")) ELSE Pass
      rIf == IF has("if")
             THEN IF ifR.st = "loop" THEN {LoopR}
                  ELSE IF ifR.st = "ok" THEN {ifR} \cup (IF has("then") THEN {here(at("then"))} ELSE {})
                  ELSE (IF has("else") THEN {here(at("else"))} ELSE {})
             ELSE {}
      \* $ref beside other keywords (2019-09 and later: an ordinary in-place applicator)
      rRef == IF has("$ref") THEN {EvRef(d, root, at("$ref")[2], v, seen)} ELSE {}
      r1 == Conj({assertions} \cup rProps \cup rPat \cup rAddl \cup rPNames \cup rDeps \cup rDepS \cup rPre \cup rRest \cup rCont
                 \cup rAll \cup rAny \cup rOne \cup rNot \cup rIf \cup rRef)
      \* unevaluatedItems (C 2019-09 9.3.1.3, 2020-12 11.2): applies to the positions not evaluated by adjacent
      \* items/additionalItems/prefixItems(/contains in 2020-12) or by in-place applicators; evaluates the rest
      uiIdx == (1..n) \ r1.i
      rUI == IF has("unevaluatedItems") /\ isA /\ r1.st = "ok"
             THEN LET r == ConjKids({ kid(at("unevaluatedItems"), v[2][j]) : j \in uiIdx }) IN
                  IF r.st = "ok" THEN {OkWith({}, uiIdx)} ELSE {r}
             ELSE {}
      \* unevaluatedProperties (C 2019-09 9.3.2.4, 2020-12 11.3): likewise for member names
      upKeys == keys \ r1.p
      rUP == IF has("unevaluatedProperties") /\ isO /\ r1.st = "ok"
             THEN LET r == ConjKids({ kid(at("unevaluatedProperties"), v[2][k]) : k \in upKeys }) IN
                  IF r.st = "ok" THEN {OkWith(upKeys, {})} ELSE {r}
             ELSE {}
  IN Conj({r1} \cup rUI \cup rUP)

Ev(d, root, s, v, seen) ==
  IF s[1] = "bool" THEN Of(s[2])                           \* C d6 4.4 / 2019-09 4.3.2: true accepts, false rejects everything
  ELSE IF Rank(d) <= 7 /\ S("$ref") \in DOMAIN s[2]
  THEN EvRef(d, root, s[2][S("$ref")][2], v, seen)         \* C d4-d7: "All other properties in a "$ref" object MUST be ignored"
  ELSE EvObject(d, root, s, v, seen)

Valid(d, root, v) == Ev(d, root, root, v, {}).st

-----------------------------------------------------------------------------
(* Every reference that occurs in a schema position resolves to a schema.   *)
(* Up to Draft 7 the siblings of "$ref" "MUST be ignored" (C d7 8.3): a     *)
(* reference that points INTO such an ignored sibling (other than the       *)
(* definitions container) has no defined target and is outside the domain.  *)
RefTargets(d, root) ==
  { ResolveRef(d, root, x[2][S("$ref")][2]) : x \in { y \in Subs(d, root) : y[1] = "obj" /\ S("$ref") \in DOMAIN y[2] /\ y[2][S("$ref")][1] = "str" } }
IgnoredInside(d, x) ==     \* subschemas below the ignored siblings of a "$ref" object
  UNION { Subs(d, z) : z \in (Subs(d, JObj([k \in (DOMAIN x[2]) \ {S("definitions"), S("$ref")} |-> x[2][k]]))
                               \ {JObj([k \in (DOMAIN x[2]) \ {S("definitions"), S("$ref")} |-> x[2][k]])}) }
(* Every pattern of every "patternProperties" in a schema position is inside *)
(* the literal vocabulary (section "Patterns").                              *)
PatternsInVocabulary(d, root) ==
  \A x \in Subs(d, root) :
    (x[1] = "obj" /\ S("patternProperties") \in DOMAIN x[2]) =>
       /\ x[2][S("patternProperties")][1] = "obj"
       /\ \A p \in DOMAIN x[2][S("patternProperties")][2] : PatInVocabulary(p)
RefsResolve(d, root) ==
  /\ \A x \in Subs(d, root) :
       (x[1] = "obj" /\ S("$ref") \in DOMAIN x[2]) =>
          /\ x[2][S("$ref")][1] = "str"
          /\ LET t == ResolveRef(d, root, x[2][S("$ref")][2]) IN IsOk(t) /\ t[2] \in Subs(d, root)
  /\ Rank(d) <= 7 =>
       \A x \in Subs(d, root) :
         (x[1] = "obj" /\ S("$ref") \in DOMAIN x[2]) => \A t \in RefTargets(d, root) : IsOk(t) => t[2] \notin IgnoredInside(d, x)
=============================================================================
