------------------------------ MODULE Container ------------------------------
(***************************************************************************)
(* basic_json as a value-semantic container (property C09): a pool of      *)
(* slots, each holding a JSON value, and the public mutating operations as *)
(* actions.  The model is "the obvious mathematical model" of the property *)
(* statement: arrays are sequences, objects are finite maps with unique    *)
(* keys whose iteration order is key order (json) or insertion order       *)
(* (ojson), copies are deep and independent (slots share nothing - an      *)
(* action changes only the slots it names), moved-from values are valid    *)
(* but unspecified.                                                        *)
(*                                                                         *)
(* Values:  <<"null">> <<"bool",b>> <<"int",n>> <<"str",cps>>              *)
(*          <<"arr", seq>>   <<"obj", seq of <<key,value>> >>  (unique     *)
(*          keys, kept in iteration order)   <<"moved">> (unspecified)     *)
(***************************************************************************)
EXTENDS Naturals, Sequences, FiniteSets, TLC

CONSTANTS Ordered,      \* TRUE: ojson (insertion order), FALSE: json (key order)
          NSlots, Keys, Lits, MaxSize, MaxDepth

VARIABLES slot,         \* slot[i] : value
          hist          \* witness history (hidden from the state identity by VIEW)

Moved == <<"moved">>
IsObj(v) == v[1] = "obj"
IsArr(v) == v[1] = "arr"
IsCont(v) == IsObj(v) \/ IsArr(v)
Known(v) == v # Moved

RECURSIVE Depth(_)
Depth(v) == IF IsArr(v) THEN 1 + (IF v[2] = <<>> THEN 0 ELSE LET S == {Depth(v[2][i]) : i \in 1..Len(v[2])} IN CHOOSE m \in S : \A x \in S : x <= m)
            ELSE IF IsObj(v) THEN 1 + (IF v[2] = <<>> THEN 0 ELSE LET S == {Depth(v[2][i][2]) : i \in 1..Len(v[2])} IN CHOOSE m \in S : \A x \in S : x <= m)
            ELSE 0
Size(v) == IF IsCont(v) THEN Len(v[2]) ELSE 0

\* keys are single code points here; key order = code point order
KeyLt(a, b) == a[1] < b[1]
Find(ps, k) == IF \E i \in 1..Len(ps) : ps[i][1] = k THEN CHOOSE i \in 1..Len(ps) : ps[i][1] = k ELSE 0
\* insert a new member (key known to be absent) at the place the flavour prescribes
InsertMember(ps, k, v) ==
  IF Ordered THEN Append(ps, <<k, v>>)
  ELSE LET n == Cardinality({i \in 1..Len(ps) : KeyLt(ps[i][1], k)}) IN
       SubSeq(ps, 1, n) \o << <<k, v>> >> \o SubSeq(ps, n + 1, Len(ps))
RemoveIdx(s, i) == SubSeq(s, 1, i - 1) \o SubSeq(s, i + 1, Len(s))
InsertIdx(s, i, v) == SubSeq(s, 1, i - 1) \o <<v>> \o SubSeq(s, i, Len(s))    \* before 1-based position i

Slots == 1..NSlots
Init == slot = [i \in Slots |-> <<"null">>] /\ hist = <<>>

Fits(v) == Depth(v) <= MaxDepth /\ Size(v) <= MaxSize
Log(op) == hist' = Append(hist, op)

(* --- whole-value operations ------------------------------------------- *)
Assign(i, lit) == slot' = [slot EXCEPT ![i] = lit] /\ Log(<<"assign", i, lit>>)
CopyAssign(i, j) == Known(slot[j]) /\ slot' = [slot EXCEPT ![i] = slot[j]] /\ Log(<<"copy", i, j>>)      \* includes i = j
CopyCtor(i, j) == Known(slot[j]) /\ i # j /\ slot' = [slot EXCEPT ![i] = slot[j]] /\ Log(<<"copyctor", i, j>>)
MoveAssign(i, j) == Known(slot[j]) /\ i # j /\ slot' = [slot EXCEPT ![i] = slot[j], ![j] = Moved] /\ Log(<<"move", i, j>>)
MoveCtor(i, j) == Known(slot[j]) /\ i # j /\ slot' = [slot EXCEPT ![i] = slot[j], ![j] = Moved] /\ Log(<<"movector", i, j>>)
Swap(i, j) == Known(slot[i]) /\ Known(slot[j]) /\ slot' = [slot EXCEPT ![i] = slot[j], ![j] = slot[i]] /\ Log(<<"swap", i, j>>)

(* --- object operations (slot i holds an object) ----------------------- *)
InsertOrAssign(i, k, j) ==
  /\ IsObj(slot[i]) /\ Known(slot[j])
  /\ LET ps == slot[i][2]  p == Find(ps, k)
         nv == <<"obj", IF p = 0 THEN InsertMember(ps, k, slot[j]) ELSE [ps EXCEPT ![p] = <<k, slot[j]>>]>> IN
     Fits(nv) /\ slot' = [slot EXCEPT ![i] = nv]
  /\ Log(<<"insert_or_assign", i, k, j>>)
TryEmplace(i, k, j) ==
  /\ IsObj(slot[i]) /\ Known(slot[j])
  /\ LET ps == slot[i][2]  p == Find(ps, k)
         nv == <<"obj", IF p = 0 THEN InsertMember(ps, k, slot[j]) ELSE ps>> IN
     Fits(nv) /\ slot' = [slot EXCEPT ![i] = nv]
  /\ Log(<<"try_emplace", i, k, j>>)
EraseKey(i, k) ==
  /\ IsObj(slot[i])
  /\ LET ps == slot[i][2]  p == Find(ps, k) IN
     slot' = [slot EXCEPT ![i] = <<"obj", IF p = 0 THEN ps ELSE RemoveIdx(ps, p)>>]
  /\ Log(<<"erase_key", i, k>>)
\* erase by position / position range in the iteration order of the object (key order for json, insertion order for ojson);
\* the range may be empty, may start at begin() and may reach end()
EraseMemberAt(i, pos) ==
  /\ IsObj(slot[i]) /\ pos \in 0..(Len(slot[i][2]) - 1)
  /\ slot' = [slot EXCEPT ![i] = <<"obj", RemoveIdx(slot[i][2], pos + 1)>>]
  /\ Log(<<"erase_member_at", i, pos>>)
EraseMemberRange(i, a, b) ==
  /\ IsObj(slot[i]) /\ a \in 0..Len(slot[i][2]) /\ b \in a..Len(slot[i][2])
  /\ slot' = [slot EXCEPT ![i] = <<"obj", SubSeq(slot[i][2], 1, a) \o SubSeq(slot[i][2], b + 1, Len(slot[i][2]))>>]
  /\ Log(<<"erase_member_range", i, a, b>>)
\* merge: members of j whose key is absent in i are inserted; merge_or_update: all members of j are inserted or assigned
RECURSIVE MergeInto(_, _, _, _)
MergeInto(ps, qs, n, update) ==
  IF n > Len(qs) THEN ps
  ELSE LET k == qs[n][1]  p == Find(ps, k) IN
       MergeInto(IF p = 0 THEN InsertMember(ps, k, qs[n][2]) ELSE IF update THEN [ps EXCEPT ![p] = qs[n]] ELSE ps, qs, n + 1, update)
Merge(i, j, update) ==
  /\ i # j /\ IsObj(slot[i]) /\ IsObj(slot[j])
  /\ LET nv == <<"obj", MergeInto(slot[i][2], slot[j][2], 1, update)>> IN Fits(nv) /\ slot' = [slot EXCEPT ![i] = nv]
  /\ Log(<<IF update THEN "merge_or_update" ELSE "merge", i, j>>)

\* range insert: insert(first, last) over a sequence of (key, value) pairs that may repeat keys; a key already
\* present (in the object or earlier in the range) is skipped - first wins; values are the 1-based positions
RECURSIVE RangeInto(_, _, _)
RangeInto(ps, ks, n) == IF n > Len(ks) THEN ps
                        ELSE RangeInto(IF Find(ps, ks[n]) = 0 THEN InsertMember(ps, ks[n], <<"int", n>>) ELSE ps, ks, n + 1)
InsertRange(i, ks) ==
  /\ IsObj(slot[i])
  /\ LET nv == <<"obj", RangeInto(slot[i][2], ks, 1)>> IN Fits(nv) /\ slot' = [slot EXCEPT ![i] = nv]
  /\ Log(<<"insert_range", i, ks>>)

(* --- array operations (slot i holds an array) ------------------------- *)
PushBack(i, j) ==
  /\ IsArr(slot[i]) /\ Known(slot[j])
  /\ LET nv == <<"arr", Append(slot[i][2], slot[j])>> IN Fits(nv) /\ slot' = [slot EXCEPT ![i] = nv]
  /\ Log(<<"push_back", i, j>>)
InsertAt(i, pos, j) ==
  /\ IsArr(slot[i]) /\ Known(slot[j]) /\ i # j /\ pos \in 0..Len(slot[i][2])
  /\ LET nv == <<"arr", InsertIdx(slot[i][2], pos + 1, slot[j])>> IN Fits(nv) /\ slot' = [slot EXCEPT ![i] = nv]
  /\ Log(<<"insert_at", i, pos, j>>)
EraseAt(i, pos) ==
  /\ IsArr(slot[i]) /\ pos \in 0..(Len(slot[i][2]) - 1)
  /\ slot' = [slot EXCEPT ![i] = <<"arr", RemoveIdx(slot[i][2], pos + 1)>>]
  /\ Log(<<"erase_at", i, pos>>)
EraseRange(i, a, b) ==
  /\ IsArr(slot[i]) /\ a \in 0..Len(slot[i][2]) /\ b \in a..Len(slot[i][2])
  /\ slot' = [slot EXCEPT ![i] = <<"arr", SubSeq(slot[i][2], 1, a) \o SubSeq(slot[i][2], b + 1, Len(slot[i][2]))>>]
  /\ Log(<<"erase_range", i, a, b>>)
Resize(i, n) ==
  /\ IsArr(slot[i]) /\ n \in 0..MaxSize
  /\ slot' = [slot EXCEPT ![i] = <<"arr", [k \in 1..n |-> IF k <= Len(slot[i][2]) THEN slot[i][2][k] ELSE <<"obj", <<>>>>]>>]     \* new elements are default-constructed values; a default basic_json is an empty object (doc/ref/corelib/basic_json.md)
  /\ Log(<<"resize", i, n>>)
SetAt(i, pos, j) ==
  /\ IsArr(slot[i]) /\ Known(slot[j]) /\ i # j /\ pos \in 0..(Len(slot[i][2]) - 1)
  /\ LET nv == <<"arr", [slot[i][2] EXCEPT ![pos + 1] = slot[j]]>> IN Fits(nv) /\ slot' = [slot EXCEPT ![i] = nv]
  /\ Log(<<"set_at", i, pos, j>>)

(* --- assignment from a part of the target itself (a = a[pos], a = a.at(key)): the value of the part, read before anything changes --- *)
AssignElem(i, pos) ==
  /\ IsArr(slot[i]) /\ pos \in 0..(Len(slot[i][2]) - 1)
  /\ slot' = [slot EXCEPT ![i] = slot[i][2][pos + 1]]
  /\ Log(<<"assign_elem", i, pos>>)
AssignMember(i, k) ==
  /\ IsObj(slot[i]) /\ Find(slot[i][2], k) # 0
  /\ slot' = [slot EXCEPT ![i] = slot[i][2][Find(slot[i][2], k)][2]]
  /\ Log(<<"assign_member", i, k>>)

(* --- both --------------------------------------------------------------- *)
Clear(i) == IsCont(slot[i]) /\ slot' = [slot EXCEPT ![i] = <<slot[i][1], <<>>>>] /\ Log(<<"clear", i>>)
Reserve(i, n) == IsCont(slot[i]) /\ UNCHANGED slot /\ Log(<<"reserve", i, n>>)       \* capacity is not observable

Next ==
  \/ \E i \in Slots, l \in Lits : Assign(i, l)
  \/ \E i \in Slots, j \in Slots : CopyAssign(i, j) \/ CopyCtor(i, j) \/ MoveAssign(i, j) \/ MoveCtor(i, j) \/ Swap(i, j)
  \/ \E i \in Slots, k \in Keys, j \in Slots : InsertOrAssign(i, k, j) \/ TryEmplace(i, k, j)
  \/ \E i \in Slots, k \in Keys : EraseKey(i, k) \/ AssignMember(i, k)
  \/ \E i \in Slots, k1 \in Keys, k2 \in Keys : InsertRange(i, <<k1, k2>>)
  \/ \E i \in Slots, k1 \in Keys, k2 \in Keys, k3 \in Keys : (MaxSize >= 3 /\ k1 # k3 /\ InsertRange(i, <<k1, k2, k3>>))
  \/ \E i \in Slots, j \in Slots : Merge(i, j, TRUE) \/ Merge(i, j, FALSE) \/ PushBack(i, j)
  \/ \E i \in Slots, j \in Slots, p \in 0..MaxSize : InsertAt(i, p, j) \/ SetAt(i, p, j)
  \/ \E i \in Slots, p \in 0..MaxSize : EraseAt(i, p) \/ Resize(i, p) \/ EraseMemberAt(i, p) \/ AssignElem(i, p)
  \/ \E i \in Slots, a \in 0..MaxSize, b \in 0..MaxSize : EraseRange(i, a, b) \/ EraseMemberRange(i, a, b)
  \/ \E i \in Slots : Clear(i) \/ Reserve(i, 8)

(* --- properties of the model itself ----------------------------------- *)
RECURSIVE WellFormedValue(_)
WellFormedValue(v) ==
  CASE IsObj(v) -> /\ \A a, b \in 1..Len(v[2]) : a # b => v[2][a][1] # v[2][b][1]                       \* unique keys
                   /\ (~Ordered => \A a \in 1..(Len(v[2]) - 1) : KeyLt(v[2][a][1], v[2][a + 1][1]))      \* json: key order
                   /\ \A a \in 1..Len(v[2]) : WellFormedValue(v[2][a][2])
    [] IsArr(v) -> \A a \in 1..Len(v[2]) : WellFormedValue(v[2][a])
    [] OTHER -> TRUE
ModelInv == \A i \in Slots : WellFormedValue(slot[i])
\* independence of copies: an action changes only the slots its log entry names
Independence == [][\A i \in Slots : slot'[i] # slot[i] =>
                     LET e == hist'[Len(hist')] IN \E p \in 2..Len(e) : e[p] = i]_<<slot, hist>>
=============================================================================
