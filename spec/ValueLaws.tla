------------------------------ MODULE ValueLaws ------------------------------
(***************************************************************************)
(* The relational laws of property C09 over basic_json values of every     *)
(* storage kind, stated over OBSERVATIONS recorded from the real           *)
(* operators (trace validation, V binding).  The spec does not predict the *)
(* outcome of a comparison between values of different kinds (the property *)
(* does not fix a cross-kind order); it requires the laws:                 *)
(*   reflexive (NaN aside), symmetric, != is the negation of ==,           *)
(*   == agrees with the ordering operators ( a==b <=> !(a<b) /\ !(a>b),    *)
(*   a<b <=> b>a, <= and >= are the reflexive closures ),                  *)
(*   equal values of the same kind print identically, and                  *)
(*   is<T>() => as<T>() returns the stored number exactly.                 *)
(* A value descriptor is a record [name, kind, nan, num] where num is the  *)
(* exact decimal digits of the stored number ("" for non-numbers).         *)
(***************************************************************************)
EXTENDS Naturals, Sequences, TLC

\* observation record o of a pair (x, y):
\*   eq_xy eq_yx ne_xy lt_xy lt_yx gt_xy gt_yx le_xy ge_xy  (booleans), dump_eq, x, y (descriptors), crash
PairLaws(o) ==
  LET anynan == o.x.nan \/ o.y.nan IN
  /\ o.crash = FALSE
  /\ o.eq_xy = o.eq_yx                                         \* symmetric
  /\ o.ne_xy = ~o.eq_xy                                        \* != is not ==
  /\ (o.x.name = o.y.name /\ ~o.x.nan => o.eq_xy)              \* reflexive, NaN aside
  /\ (~anynan => (o.lt_xy = o.gt_yx /\ o.gt_xy = o.lt_yx))     \* a<b <=> b>a
  /\ (~anynan => (o.eq_xy <=> (~o.lt_xy /\ ~o.gt_xy)))         \* == agrees with the order
  /\ (~anynan => (o.le_xy <=> (o.lt_xy \/ o.eq_xy)))
  /\ (~anynan => (o.ge_xy <=> (o.gt_xy \/ o.eq_xy)))
  /\ (~anynan => ~(o.lt_xy /\ o.gt_xy))
  /\ (o.eq_xy /\ o.x.kind = o.y.kind /\ ~anynan => o.dump_eq)  \* equal values of one kind print identically

\* digit-string comparison for the exactness law
RECURSIVE DigCmp(_, _, _)
DigCmp(a, b, i) == IF i > Len(a) THEN 0 ELSE IF a[i] < b[i] THEN 1 ELSE IF a[i] > b[i] THEN 2 ELSE DigCmp(a, b, i + 1)
DigLE(a, b) == Len(a) < Len(b) \/ (Len(a) = Len(b) /\ DigCmp(a, b, 1) # 2)
\* magnitude limits of the integer types as code-unit digit strings: <<max, |min|>>
Limit(t) == CASE t = "int8" -> << <<49,50,55>>, <<49,50,56>> >>
              [] t = "uint8" -> << <<50,53,53>>, <<48>> >>
              [] t = "int16" -> << <<51,50,55,54,55>>, <<51,50,55,54,56>> >>
              [] t = "uint16" -> << <<54,53,53,51,53>>, <<48>> >>
              [] t = "int32" -> << <<50,49,52,55,52,56,51,54,52,55>>, <<50,49,52,55,52,56,51,54,52,56>> >>
              [] t = "uint32" -> << <<52,50,57,52,57,54,55,50,57,53>>, <<48>> >>
              [] t = "int64" -> << <<57,50,50,51,51,55,50,48,51,54,56,53,52,55,55,53,56,48,55>>, <<57,50,50,51,51,55,50,48,51,54,56,53,52,55,55,53,56,48,56>> >>
              [] t = "uint64" -> << <<49,56,52,52,54,55,52,52,48,55,51,55,48,57,53,53,49,54,49,53>>, <<48>> >>
\* num = <<sign, digits>> with sign in {0,1} (1 = negative), digits without leading zeros
InRange(t, num) == IF num[1] = 1 THEN DigLE(num[2], Limit(t)[2]) ELSE DigLE(num[2], Limit(t)[1])
\* observation record c of a conversion: [x |-> descriptor, t |-> type name, is |-> BOOLEAN, as |-> <<sign,digits>> (when is), crash]
ConvLaw(c) == /\ c.crash = FALSE
              /\ (c.is /\ c.x.isint => (c.as = c.x.num /\ InRange(c.t, c.x.num)))
=============================================================================
