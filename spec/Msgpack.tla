------------------------------- MODULE Msgpack -------------------------------
(***************************************************************************)
(* MessagePack reference decoder as total recursive operators over a byte  *)
(* sequence, written from the MessagePack specification (msgpack/msgpack   *)
(* spec.md): sections "Formats / Overview" (the first-byte table), "nil    *)
(* format", "bool format family", "int format family", "float format       *)
(* family", "str format family", "bin format family", "array format        *)
(* family", "map format family", "ext format family", "Timestamp extension *)
(* type" and "Serialization / Deserialization".  Independent oracle for    *)
(* C07 (it is NOT a transcription of jsoncons' msgpack_parser.hpp).        *)
(*                                                                         *)
(*   Item(b, i)  ==  <<"ok", value, next>>  |  <<"err">>                   *)
(* decodes ONE object starting at 1-based position i.  All multi-byte      *)
(* numbers in MessagePack are big-endian ("Notation in diagrams"), so the  *)
(* argument bytes are already in the order of the shared data model.       *)
(*                                                                         *)
(* Values: the shared binary data model of Cbor.tla's header               *)
(*   <<"uint", bs>> <<"nint", bs>> (big-endian magnitude, no leading zero; *)
(*   nint n is -1-n) <<"bstr", bytes>> <<"tstr", bytes>> <<"arr", seq>>    *)
(*   <<"map", seq of <<key, value>> >> <<"bool", b>> <<"null">>            *)
(*   <<"f32", bytes4>> <<"f64", bytes8>>                                   *)
(* Extension objects.  The first two components of every value are always  *)
(* a kind/payload pair that harness/common/binval.hpp understands or a     *)
(* kind it does not know (then Plain = FALSE); further components are      *)
(* annotations that binval.hpp ignores and Plain / MayRefuse read:         *)
(*   <<"bstr", bytes, "ext", type>>   ext object of application type       *)
(*                           0..127: jsoncons image "byte_string" (tag ext *)
(*                           and the type are not compared by binval.hpp)  *)
(*   <<"uint", bs, "ts32">>  Timestamp (type -1, 4 bytes): jsoncons image  *)
(*                           "uint64, tag seconds"                         *)
(*   <<"tstr", digits, "ts64" | "ts96" | "ts96-neg-frac">>  Timestamp of   *)
(*                           8 / 12 bytes: jsoncons image "string, tag     *)
(*                           epoch_nanosecond" = the decimal number of     *)
(*                           nanoseconds since the epoch,                  *)
(*                           seconds * 10^9 + nanoseconds                  *)
(*   <<"ts", bytes>>         Timestamp with a nanoseconds field > 999999999 *)
(*   <<"ext", type, bytes>>  ext object of a reserved type (type byte      *)
(*                           128..255 = signed -128..-1) that is not a     *)
(*                           timestamp                                     *)
(***************************************************************************)
EXTENDS Naturals, Sequences, FiniteSets

Huge == 100000000          \* stands for "longer than any input we ever build"

At(b, i) == IF i >= 1 /\ i <= Len(b) THEN b[i] ELSE 0 - 1
StripZeros(bs) == LET nz == {k \in 1..Len(bs) : bs[k] # 0} IN
                  IF nz = {} THEN <<>> ELSE SubSeq(bs, CHOOSE k \in nz : \A m \in nz : k <= m, Len(bs))
\* numeric value of a big-endian byte sequence, saturating at Huge (TLC integers are 32-bit)
RECURSIVE NumOf(_, _, _)
NumOf(bs, k, acc) == IF k > Len(bs) THEN acc
                     ELSE IF acc >= Huge \div 256 THEN Huge ELSE NumOf(bs, k + 1, acc * 256 + bs[k])
Num(bs) == NumOf(StripZeros(bs), 1, 0)
\* bitwise NOT of every byte (two's complement x < 0  ==>  -1 - x = NOT x)
Invert(bs) == [k \in 1..Len(bs) |-> 255 - bs[k]]
Tuple(f) == SubSeq(f, 1, Len(f))       \* (no-op on tuples; keeps values printed as sequences)

-----------------------------------------------------------------------------
(* "str format family": "String extending Raw type represents a UTF-8      *)
(* string".  UTF-8 well-formedness is RFC 3629 section 4 (ABNF): no        *)
(* overlong forms, no surrogates U+D800..DFFF, nothing above U+10FFFF.     *)
(* The MessagePack specification leaves the behaviour on an invalid byte   *)
(* sequence to the implementation ("String objects may contain invalid     *)
(* byte sequence and the behavior of a deserializer depends on the actual  *)
(* implementation"); jsoncons pins it: its string data item is UTF-8 and   *)
(* it documents the error msgpack_errc::invalid_utf8_text_string           *)
(* ("Illegal UTF-8 encoding in text string").  The oracle therefore        *)
(* predicts "err" for a str object whose payload is not UTF-8 - accepting  *)
(* it would put a non-UTF-8 string into the JSON data model.               *)
Tail1(c) == c >= 128 /\ c <= 191
RECURSIVE Utf8Ok(_, _)
Utf8Ok(s, i) ==
  IF i > Len(s) THEN TRUE
  ELSE LET c == At(s, i) c1 == At(s, i + 1) c2 == At(s, i + 2) c3 == At(s, i + 3) IN
    IF c <= 127 THEN Utf8Ok(s, i + 1)
    ELSE IF c >= 194 /\ c <= 223 /\ Tail1(c1) THEN Utf8Ok(s, i + 2)
    ELSE IF c = 224 /\ c1 >= 160 /\ c1 <= 191 /\ Tail1(c2) THEN Utf8Ok(s, i + 3)
    ELSE IF ((c >= 225 /\ c <= 236) \/ c = 238 \/ c = 239) /\ Tail1(c1) /\ Tail1(c2) THEN Utf8Ok(s, i + 3)
    ELSE IF c = 237 /\ c1 >= 128 /\ c1 <= 159 /\ Tail1(c2) THEN Utf8Ok(s, i + 3)
    ELSE IF c = 240 /\ c1 >= 144 /\ c1 <= 191 /\ Tail1(c2) /\ Tail1(c3) THEN Utf8Ok(s, i + 4)
    ELSE IF c >= 241 /\ c <= 243 /\ Tail1(c1) /\ Tail1(c2) /\ Tail1(c3) THEN Utf8Ok(s, i + 4)
    ELSE IF c = 244 /\ c1 >= 128 /\ c1 <= 143 /\ Tail1(c2) /\ Tail1(c3) THEN Utf8Ok(s, i + 4)
    ELSE FALSE

-----------------------------------------------------------------------------
(* Fixed-width big-endian field of w bytes at position i:                  *)
(* <<"ok", bytes, next>> or <<"err">> when the input ends inside it.       *)
Field(b, i, w) == IF i + w - 1 > Len(b) THEN <<"err">> ELSE <<"ok", SubSeq(b, i, i + w - 1), i + w>>
\* a payload of n bytes (n may be Huge: a claimed length beyond the input is a truncated object)
Payload(b, i, n) == IF n >= Huge \/ i + n - 1 > Len(b) THEN <<"err">> ELSE <<"ok", SubSeq(b, i, i + n - 1), i + n>>

(* "int format family": int 8/16/32/64 are two's-complement big-endian     *)
(* signed integers.  Non-negative (top bit clear): the magnitude itself;   *)
(* negative (top bit set): -1 - NOT(bytes).                                *)
Signed(bs) == IF bs[1] < 128 THEN <<"uint", StripZeros(bs)>> ELSE <<"nint", StripZeros(Tuple(Invert(bs)))>>

(* "Timestamp extension type": type -1 (type byte 255).                    *)
(*   timestamp 32: 4 bytes  = seconds (uint32)                             *)
(*   timestamp 64: 8 bytes  = nanoseconds (upper 30 bits) | seconds (34)   *)
(*   timestamp 96: 12 bytes = nanoseconds (uint32) | seconds (int64)       *)
(* "In timestamp 64 and timestamp 96 formats, nanoseconds must not be      *)
(* larger than 999999999."  999999999 = 0x3B9AC9FF.                        *)
Nanos64(d) == (((d[1] * 65536) + (d[2] * 256) + d[3]) * 64) + (d[4] \div 4)          \* < 2^30
NanosTooLarge(d) ==
  CASE Len(d) = 8  -> Nanos64(d) > 999999999
    [] Len(d) = 12 -> d[1] > 59 \/ (d[1] = 59 /\ ((d[2] * 65536) + (d[3] * 256) + d[4]) > 10144255)    \* 0x9AC9FF
    [] OTHER -> FALSE
\* the nanoseconds field (only used when it is <= 999999999 < 2^31)
Nanos96(d) == (d[1] * 16777216) + (d[2] * 65536) + (d[3] * 256) + d[4]

(* Decimal arithmetic on digit sequences (most significant first, <<>> = 0)*)
(* for the 64-bit seconds field: TLC integers are 32-bit.                  *)
RECURSIVE FlushCarry(_, _), MulAddR(_, _, _, _, _), DecOfBytes(_, _, _)
FlushCarry(carry, acc) == IF carry = 0 THEN acc ELSE FlushCarry(carry \div 10, <<carry % 10>> \o acc)
MulAddR(ds, k, m, carry, acc) == IF k = 0 THEN FlushCarry(carry, acc)
                                 ELSE LET t == (ds[k] * m) + carry IN MulAddR(ds, k - 1, m, t \div 10, <<t % 10>> \o acc)
MulAdd(ds, m, a) == MulAddR(ds, Len(ds), m, a, <<>>)             \* ds * m + a   (m <= 1000, a <= 1000)
DecOfBytes(bs, k, acc) == IF k > Len(bs) THEN acc ELSE DecOfBytes(bs, k + 1, MulAdd(acc, 256, bs[k]))
\* secs * 10^9 + add  (add <= 10^9), secs as decimal digits
TimesBillionPlus(secs, add) ==
  MulAdd(MulAdd(MulAdd(secs, 1000, add \div 1000000), 1000, (add \div 1000) % 1000), 1000, add % 1000)
Ascii(ds) == IF ds = <<>> THEN <<48>> ELSE [k \in 1..Len(ds) |-> 48 + ds[k]]

(* "Timestamp extension type": the instant is seconds + nanoseconds * 1e-9 *)
(* since 1970-01-01 00:00:00 UTC; in timestamp 96 seconds is a SIGNED      *)
(* 64-bit integer and nanoseconds is always a non-negative offset, so      *)
(* (sec = -1, nsec = 1) is -999999999 ns.  doc/ref/msgpack/msgpack.md:     *)
(* 4 bytes -> uint64 tagged seconds; 8 / 12 bytes -> string tagged         *)
(* epoch_nanosecond.                                                       *)
Timestamp(d) ==
  IF Len(d) = 4 THEN <<"uint", StripZeros(d), "ts32">>                       \* timestamp 32: seconds in a 32-bit unsigned int
  ELSE IF NanosTooLarge(d) THEN <<"ts", d>>
  ELSE IF Len(d) = 8                                                         \* timestamp 64: nanoseconds in 30 bits, seconds in 34 bits
    THEN LET secs == DecOfBytes(<<d[4] % 4, d[5], d[6], d[7], d[8]>>, 1, <<>>) IN
         <<"tstr", Tuple(Ascii(TimesBillionPlus(secs, Nanos64(d)))), "ts64">>
  ELSE LET sb == SubSeq(d, 5, 12)  ns == Nanos96(d) IN                       \* timestamp 96: nanoseconds uint32, seconds int64
    IF sb[1] < 128 THEN <<"tstr", Tuple(Ascii(TimesBillionPlus(DecOfBytes(sb, 1, <<>>), ns))), "ts96">>
    \* seconds = -(m + 1) with m = NOT sb:  total = -((m + 1) * 10^9 - ns) = -(m * 10^9 + (10^9 - ns)),  10^9 - ns >= 1
    ELSE LET m == DecOfBytes(Tuple(Invert(sb)), 1, <<>>) IN
         <<"tstr", <<45>> \o Tuple(Ascii(TimesBillionPlus(m, 1000000000 - ns))), IF ns = 0 THEN "ts96" ELSE "ts96-neg-frac">>

(* An ext object of type ty with payload d.  The deserialization pseudo    *)
(* code of the Timestamp section selects the timestamp layout by the data  *)
(* length of the ext object (4, 8, 12), whatever ext format carried it.    *)
(* "Extension types": type 0..127 is application-specific, a negative type *)
(* (byte 128..255) is reserved for predefined types.                       *)
ExtValue(ty, d) == IF ty = 255 /\ Len(d) \in {4, 8, 12} THEN Timestamp(d)
                   ELSE IF ty <= 127 THEN <<"bstr", d, "ext", ty>>
                   ELSE <<"ext", ty, d>>

RECURSIVE Item(_, _), Items(_, _, _, _), Pairs(_, _, _, _)

\* "array format family": N objects follow the head
Items(b, i, n, acc) ==
  IF n = 0 THEN <<"ok", acc, i>>
  ELSE IF i > Len(b) THEN <<"err">>            \* also stops absurd claimed counts at once
  ELSE LET r == Item(b, i) IN IF r[1] = "err" THEN r ELSE Items(b, r[3], n - 1, Append(acc, r[2]))
\* "map format family": N*2 objects follow the head; "odd elements are keys and the next element of a key is its value"
Pairs(b, i, n, acc) ==
  IF n = 0 THEN <<"ok", acc, i>>
  ELSE IF i > Len(b) THEN <<"err">>
  ELSE LET k == Item(b, i) IN IF k[1] = "err" THEN k
       ELSE LET v == Item(b, k[3]) IN IF v[1] = "err" THEN v ELSE Pairs(b, v[3], n - 1, Append(acc, <<k[2], v[2]>>))

\* str object with n payload bytes starting at i
Str(b, i, n) == LET p == Payload(b, i, n) IN
  IF p[1] = "err" THEN p ELSE IF ~Utf8Ok(p[2], 1) THEN <<"err">> ELSE <<"ok", <<"tstr", p[2]>>, p[3]>>
\* bin object with n payload bytes starting at i
Bin(b, i, n) == LET p == Payload(b, i, n) IN IF p[1] = "err" THEN p ELSE <<"ok", <<"bstr", p[2]>>, p[3]>>
\* ext object: one type byte at i, then n payload bytes
Ext(b, i, n) == LET t == Field(b, i, 1) IN
  IF t[1] = "err" THEN t
  ELSE LET p == Payload(b, t[3], n) IN IF p[1] = "err" THEN p ELSE <<"ok", ExtValue(t[2][1], p[2]), p[3]>>
Arr(b, i, n) == LET r == Items(b, i, n, <<>>) IN IF r[1] = "err" THEN r ELSE <<"ok", <<"arr", r[2]>>, r[3]>>
Map(b, i, n) == LET r == Pairs(b, i, n, <<>>) IN IF r[1] = "err" THEN r ELSE <<"ok", <<"map", r[2]>>, r[3]>>
\* a length/count field of w bytes at i, then the body built by one of the operators above
WithLen(b, i, w, Body(_, _, _)) == LET f == Field(b, i, w) IN IF f[1] = "err" THEN f ELSE Body(b, f[3], Num(f[2]))
\* a fixed-width scalar of w bytes at i
Scalar(b, i, w, Val(_)) == LET f == Field(b, i, w) IN IF f[1] = "err" THEN f ELSE <<"ok", Val(f[2]), f[3]>>
UIntVal(bs) == <<"uint", StripZeros(bs)>>
F32Val(bs) == <<"f32", bs>>
F64Val(bs) == <<"f64", bs>>

(* "Formats / Overview": the object kind is selected by the first byte.    *)
Item(b, i) ==
  IF i > Len(b) THEN <<"err">>                               \* no object at all / truncated container
  ELSE LET c == b[i]  nx == i + 1 IN
    CASE c <= 127            -> <<"ok", <<"uint", StripZeros(<<c>>)>>, nx>>        \* positive fixint 0xxxxxxx: 7-bit unsigned integer
      [] c >= 128 /\ c <= 143 -> Map(b, nx, c - 128)                               \* fixmap   1000xxxx: up to 15 pairs
      [] c >= 144 /\ c <= 159 -> Arr(b, nx, c - 144)                               \* fixarray 1001xxxx: up to 15 elements
      [] c >= 160 /\ c <= 191 -> Str(b, nx, c - 160)                               \* fixstr   101xxxxx: up to 31 bytes
      [] c = 192 -> <<"ok", <<"null">>, nx>>                                       \* nil   0xc0
      [] c = 193 -> <<"err">>                                                      \* (never used) 0xc1
      [] c = 194 -> <<"ok", <<"bool", FALSE>>, nx>>                                \* false 0xc2
      [] c = 195 -> <<"ok", <<"bool", TRUE>>, nx>>                                 \* true  0xc3
      [] c = 196 -> WithLen(b, nx, 1, Bin)                                         \* bin 8   0xc4: 8-bit length
      [] c = 197 -> WithLen(b, nx, 2, Bin)                                         \* bin 16  0xc5: 16-bit big-endian length
      [] c = 198 -> WithLen(b, nx, 4, Bin)                                         \* bin 32  0xc6: 32-bit big-endian length
      [] c = 199 -> WithLen(b, nx, 1, Ext)                                         \* ext 8   0xc7: length, type, data
      [] c = 200 -> WithLen(b, nx, 2, Ext)                                         \* ext 16  0xc8
      [] c = 201 -> WithLen(b, nx, 4, Ext)                                         \* ext 32  0xc9
      [] c = 202 -> Scalar(b, nx, 4, F32Val)                                       \* float 32 0xca: big-endian IEEE 754 single
      [] c = 203 -> Scalar(b, nx, 8, F64Val)                                       \* float 64 0xcb: big-endian IEEE 754 double
      [] c = 204 -> Scalar(b, nx, 1, UIntVal)                                      \* uint 8  0xcc
      [] c = 205 -> Scalar(b, nx, 2, UIntVal)                                      \* uint 16 0xcd
      [] c = 206 -> Scalar(b, nx, 4, UIntVal)                                      \* uint 32 0xce
      [] c = 207 -> Scalar(b, nx, 8, UIntVal)                                      \* uint 64 0xcf
      [] c = 208 -> Scalar(b, nx, 1, Signed)                                       \* int 8   0xd0
      [] c = 209 -> Scalar(b, nx, 2, Signed)                                       \* int 16  0xd1
      [] c = 210 -> Scalar(b, nx, 4, Signed)                                       \* int 32  0xd2
      [] c = 211 -> Scalar(b, nx, 8, Signed)                                       \* int 64  0xd3
      [] c = 212 -> Ext(b, nx, 1)                                                  \* fixext 1  0xd4: type, 1 data byte
      [] c = 213 -> Ext(b, nx, 2)                                                  \* fixext 2  0xd5
      [] c = 214 -> Ext(b, nx, 4)                                                  \* fixext 4  0xd6
      [] c = 215 -> Ext(b, nx, 8)                                                  \* fixext 8  0xd7
      [] c = 216 -> Ext(b, nx, 16)                                                 \* fixext 16 0xd8
      [] c = 217 -> WithLen(b, nx, 1, Str)                                         \* str 8   0xd9
      [] c = 218 -> WithLen(b, nx, 2, Str)                                         \* str 16  0xda
      [] c = 219 -> WithLen(b, nx, 4, Str)                                         \* str 32  0xdb
      [] c = 220 -> WithLen(b, nx, 2, Arr)                                         \* array 16 0xdc
      [] c = 221 -> WithLen(b, nx, 4, Arr)                                         \* array 32 0xdd
      [] c = 222 -> WithLen(b, nx, 2, Map)                                         \* map 16  0xde
      [] c = 223 -> WithLen(b, nx, 4, Map)                                         \* map 32  0xdf
      [] c >= 224 -> <<"ok", <<"nint", StripZeros(<<255 - c>>)>>, nx>>             \* negative fixint 111xxxxx: 5-bit negative integer -32..-1

\* whole-input decoding of the first object
Decode(b) == Item(b, 1)

-----------------------------------------------------------------------------
(* Classification used by the conformance cases.                           *)
(* Plain(v): every kind in v is understood by harness/common/binval.hpp    *)
(* AND doc/ref/msgpack/msgpack.md documents its jsoncons image (nil ->     *)
(* null, bool, int family -> int64/uint64, float -> double, str -> string, *)
(* bin -> byte_string, ext 0..127 -> byte_string, timestamps -> uint64 /   *)
(* string, array -> array, map -> object).  Objects have text keys and one *)
(* value per key, so maps with other keys (also timestamp keys) or         *)
(* duplicate keys are compared on the verdict only.                        *)
(*                                                                         *)
(* KnownDefect1 (SUSPECTED DEFECT 1, notes/C07-msgpack.md): a timestamp 96 *)
(* with NEGATIVE seconds and NON-ZERO nanoseconds.  The specification adds *)
(* the nanoseconds to the (signed) seconds; jsoncons' msgpack_parser.hpp   *)
(* subtracts them when seconds < 0, e.g. c7 0c ff 00000001                 *)
(* ffffffffffffffff (sec -1, nsec 1) should be "-999999999" and decodes to *)
(* "-1000000001".  Excluded from the VALUE comparison only (the verdict is *)
(* still compared) until the project lead decides on /repo; removing this  *)
(* operator (KnownDefect1(v) == FALSE) makes the check red on that class.  *)
KnownDefect1(v) == v[1] = "tstr" /\ Len(v) = 3 /\ v[3] = "ts96-neg-frac"
TextKey(k) == k[1] = "tstr" /\ Len(k) = 2
RECURSIVE Plain(_)
Plain(v) ==
  CASE v[1] = "arr" -> \A k \in 1..Len(v[2]) : Plain(v[2][k])
    [] v[1] = "map" -> /\ \A k \in 1..Len(v[2]) : TextKey(v[2][k][1]) /\ Plain(v[2][k][2])              \* text keys only
                       /\ \A k, m \in 1..Len(v[2]) : k # m => v[2][k][1] # v[2][m][1]                  \* no duplicate keys
    [] v[1] = "ext" -> FALSE
    [] v[1] = "ts" -> FALSE
    [] OTHER -> ~KnownDefect1(v)          \* nint from int 8..64 is >= -2^63 by construction

(* MayRefuse(v): well-formed MessagePack that a conforming decoder may     *)
(* still refuse; the verdict is not compared (the case is still replayed). *)
(*  R1 ext objects whose type is negative (type byte 128..255) other than  *)
(*     a timestamp: "MessagePack reserves -1 to -128 for future extension  *)
(*     to add predefined types"; the specification does not say what a     *)
(*     decoder does with a predefined type it does not know, and the       *)
(*     timestamp pseudo code ends with "default: // error" for type -1     *)
(*     with a data length other than 4, 8, 12.  jsoncons documents ext     *)
(*     types 0-127 and -1 only.                                            *)
(*  R2 timestamps (type -1, 8 or 12 data bytes) whose nanoseconds field    *)
(*     exceeds 999999999: "nanoseconds must not be larger than 999999999"  *)
(*     constrains the producer; a decoder may reject or pass it on.        *)
ReservedExt(v) == v[1] = "ext"
BadTimestamp(v) == v[1] = "ts"
RECURSIVE MayRefuse(_)
MayRefuse(v) ==
  CASE v[1] = "arr" -> \E k \in 1..Len(v[2]) : MayRefuse(v[2][k])
    [] v[1] = "map" -> \E k \in 1..Len(v[2]) : MayRefuse(v[2][k][1]) \/ MayRefuse(v[2][k][2])
    [] OTHER -> ReservedExt(v) \/ BadTimestamp(v)
=============================================================================
