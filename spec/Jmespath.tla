------------------------------ MODULE Jmespath ------------------------------
(***************************************************************************)
(* JMESPath (jmespath.org specification) as an evaluator over the          *)
(* JsonValue data model, plus the un-parser that renders an expression     *)
(* tree as the expression string handed to the implementation.             *)
(*                                                                         *)
(* Written from the JMESPath specification (grammar, the per-construct     *)
(* "search(expr, data)" rules and the built-in function definitions), and  *)
(* validated against the official compliance suite                         *)
(* (spec/gen/MC_C13corpus.tla, checked by MC_C13valid) - not from the      *)
(* jsoncons sources.                                                       *)
(*                                                                         *)
(* EXPRESSION TREES (tagged tuples; keys, strings = code-point sequences)  *)
(*   <<"cur">>                    @            current-node                *)
(*   <<"fld", k>>                 identifier                               *)
(*   <<"lit", v>>                 `json`       literal                     *)
(*   <<"raw", s>>                 'text'       raw-string                  *)
(*   <<"par", e>>                 ( e )        paren-expression            *)
(*   <<"sub", l, r>>              l.r          sub-expression              *)
(*   <<"idx", l, n>>              l[n]         index-expression            *)
(*   <<"prj", l, rhs>>            l[*] rhs     list wildcard projection    *)
(*   <<"vpr", l, rhs>>            l.* rhs      hash wildcard projection    *)
(*   <<"flt", l, rhs>>            l[] rhs      flatten projection          *)
(*   <<"slc", l, <<a,b,c>>, rhs>> l[a:b:c] rhs slice projection; a,b,c are *)
(*                                             <<>> (absent) or <<n>>      *)
(*   <<"fil", l, cond, rhs>>      l[?cond] rhs filter projection           *)
(*   <<"pipe", l, r>>  <<"or", l, r>>  <<"and", l, r>>  <<"not", e>>       *)
(*   <<"cmp", op, l, r>>          op in eq ne lt le gt ge                  *)
(*   <<"mls", <<e1, .., en>>>>    [e1, .., en]      multi-select-list      *)
(*   <<"mhs", <<<<k1,e1>>,..>>>>  {k1: e1, ..}      multi-select-hash      *)
(*   <<"fn", name, <<a1,..>>>>    name(a1, ..); an argument is an          *)
(*                                expression or <<"ref", e>>  (&e)         *)
(* In bracket/wildcard forms  l = <<"cur">>  is the bare form ([n], [*],   *)
(* *, [], [a:b], [?c]).  "rhs" is the part of the expression that the      *)
(* projection applies to each element; <<"cur">> = nothing follows.        *)
(* The tree is concrete syntax modulo white space: parentheses are "par"   *)
(* nodes, Show never invents any, and Renderable says which trees are      *)
(* expression strings whose reading is unambiguous (see there).            *)
(*                                                                         *)
(* NUMBERS.  JSON has one number type.  <<"int", n>> is an integer,         *)
(* <<"dec", m, e>> is the decimal m * 10^e (exact; no binary floating      *)
(* point in this module).  The evaluator works on CANONICAL numbers only:  *)
(* a number whose value is an integer is <<"int", n>>, any other number is *)
(* <<"dec", m, e>> with e < 0 and m not divisible by 10, so that = on      *)
(* values is numeric equality (1 = 1.0 = 1e0, as the comparator and         *)
(* contains() definitions require).  Documents and literals may be written *)
(* with non-canonical numbers (<<"dec", 10, -1>> is the text 1.0,          *)
(* <<"dec", 1, 2>> the text 1e2, <<"dec", 50, -2>> the text 0.50): that    *)
(* selects the text / storage handed to the implementation, never the      *)
(* value; NormV maps them to canonical form (literals are normalised by    *)
(* Ev, documents by the caller: SearchN / the generator's document table). *)
(*                                                                         *)
(* RESULTS:  a JsonValue,  <<"err", class>>  (the specification requires   *)
(* an error),  or  <<"dc", why>>  (the specification is silent or          *)
(* ambiguous: declared don't-care, never compared).                        *)
(***************************************************************************)
EXTENDS JsonValue, Integers, TLC

Err(c) == <<"err", c>>
DC(c) == <<"dc", c>>
Abn(x) == x[1] = "err" \/ x[1] = "dc"
TypeErr == Err("invalid-type")

IsNum(x) == x[1] = "int" \/ x[1] = "dec"
IsStrV(x) == x[1] = "str"
IsArrV(x) == x[1] = "arr"
IsObjV(x) == x[1] = "obj"
IsRef(x) == x[1] = "ref"

-----------------------------------------------------------------------------
(* Orders.  Strings compare by code point (lexicographic).  The            *)
(* specification does not fix the order in which the members of an object  *)
(* are enumerated (hash wildcard, keys(), values()); the evaluator takes    *)
(* an environment o = [ord |-> "asc" or "desc" (by key), xf |-> S] and the  *)
(* generator marks a case order-dependent when the two results differ.     *)
(* With o.xf = {} the evaluator is the specification, and every predicted  *)
(* result is computed that way.  o.xf is only used to CLASSIFY cases: it   *)
(* is a set of names of known deviations of the implementation under test  *)
(* (notes/C13.md, "SUSPECTED DEFECTS"; /verif/known_findings.jsonl); where *)
(* the specified result and the named deviant reading differ, Ev returns   *)
(* DC(name) instead, so  Ev(.., xf = {n}) # Ev(.., xf = {})  says "this     *)
(* (expression, document) falls into deviation class n".  The generator    *)
(* emits those names with the case (field "dev"); the case is generated,   *)
(* predicted and compared like any other.                                  *)
RECURSIVE SeqLess(_, _)
SeqLess(a, b) == IF b = <<>> THEN FALSE
                 ELSE IF a = <<>> THEN TRUE
                 ELSE IF a[1] # b[1] THEN a[1] < b[1]
                 ELSE SeqLess(Tail(a), Tail(b))

-----------------------------------------------------------------------------
(* Exact decimal arithmetic on canonical numbers (scaled integers).        *)
JDec(m, e) == <<"dec", m, e>>
AbsInt(n) == IF n < 0 THEN 0 - n ELSE n
RECURSIVE Pow10(_), Pow5(_), MkNum(_, _)
Pow10(k) == IF k = 0 THEN 1 ELSE 10 * Pow10(k - 1)
Pow5(k) == IF k = 0 THEN 1 ELSE 5 * Pow5(k - 1)
\* the canonical number with value m * 10^e
MkNum(m, e) == IF m = 0 THEN JInt(0)
               ELSE IF e >= 0 THEN JInt(m * Pow10(e))
               ELSE IF (AbsInt(m) % 10) = 0 THEN MkNum((IF m < 0 THEN 0 - 1 ELSE 1) * (AbsInt(m) \div 10), e + 1)
               ELSE JDec(m, e)
NumEx(x) == IF x[1] = "int" THEN 0 ELSE x[3]
MinEx(x, y) == IF NumEx(x) < NumEx(y) THEN NumEx(x) ELSE NumEx(y)
\* mantissa of x at exponent e <= NumEx(x)
MAt(x, e) == x[2] * Pow10(NumEx(x) - e)
NumLess(x, y) == LET e == MinEx(x, y) IN MAt(x, e) < MAt(y, e)
NumAdd(x, y) == LET e == MinEx(x, y) IN MkNum(MAt(x, e) + MAt(y, e), e)
NumAbs(x) == IF x[1] = "int" THEN JInt(AbsInt(x[2])) ELSE JDec(AbsInt(x[2]), x[3])
\* largest integer <= x / smallest integer >= x
NumFloor(x) == IF x[1] = "int" THEN x
               ELSE LET d == Pow10(0 - x[3]) IN JInt(IF x[2] >= 0 THEN x[2] \div d ELSE 0 - (((0 - x[2]) + d - 1) \div d))
NumCeil(x) == IF x[1] = "int" THEN x
              ELSE LET d == Pow10(0 - x[3]) IN JInt(IF x[2] >= 0 THEN (x[2] + d - 1) \div d ELSE 0 - ((0 - x[2]) \div d))
NumMulNat(x, n) == MkNum(x[2] * n, NumEx(x))
\* x / n (n > 0) when the quotient is a decimal with at most 4 more fraction digits than x, else <<>>
RECURSIVE DivSteps(_, _, _)
DivSteps(am, n, k) == IF (am % n) = 0 THEN <<am \div n, k>> ELSE IF k = 4 THEN <<>> ELSE DivSteps(am * 10, n, k + 1)
NumDivNat(x, n) == LET q == DivSteps(AbsInt(x[2]), n, 0)
                   IN IF q = <<>> THEN <<>> ELSE MkNum((IF x[2] < 0 THEN 0 - 1 ELSE 1) * q[1], NumEx(x) - q[2])
\* the value is a dyadic rational (exactly representable in binary floating point when small): an integer, or
\* m / 10^k with 5^k | m
BinExact(x) == x[1] = "int" \/ (AbsInt(x[2]) % Pow5(0 - x[3])) = 0

\* canonical form of a value (see NUMBERS above)
RECURSIVE HasDec(_), NormAll(_), NormSeq(_, _, _)
HasDec(v) == CASE v[1] = "dec" -> TRUE
               [] v[1] = "arr" -> \E i \in 1..Len(v[2]) : HasDec(v[2][i])
               [] v[1] = "obj" -> \E k \in DOMAIN v[2] : HasDec(v[2][k])
               [] OTHER -> FALSE
NormSeq(s, i, acc) == IF i > Len(s) THEN acc ELSE NormSeq(s, i + 1, Append(acc, NormAll(s[i])))
NormAll(v) == CASE v[1] = "dec" -> MkNum(v[2], v[3])
                [] v[1] = "arr" -> JArr(NormSeq(v[2], 1, <<>>))
                [] v[1] = "obj" -> JObj([k \in DOMAIN v[2] |-> NormAll(v[2][k])])
                [] OTHER -> v
NormV(v) == IF HasDec(v) THEN NormAll(v) ELSE v

\* sort keys: both numbers or both "str"
VLess(x, y) == IF IsNum(x) THEN NumLess(x, y) ELSE SeqLess(x[2], y[2])

\* stable insertion sort of <<key, payload>> pairs
RECURSIVE InsStable(_, _)
InsStable(sorted, p) == IF sorted = <<>> THEN <<p>>
                        ELSE IF VLess(p[1], sorted[1][1]) THEN <<p>> \o sorted
                        ELSE <<sorted[1]>> \o InsStable(Tail(sorted), p)
RECURSIVE SortPairs(_, _)
SortPairs(ps, n) == IF n = 0 THEN <<>> ELSE InsStable(SortPairs(ps, n - 1), ps[n])
Seconds(ps) == [i \in 1..Len(ps) |-> ps[i][2]]

KeySeqOrd(f, ord) == LET ks == SetToSeq(DOMAIN f)
                         ps == [i \in 1..Len(ks) |-> <<JStr(ks[i]), ks[i]>>]
                         asc == Seconds(SortPairs(ps, Len(ps)))
                     IN IF ord = "asc" THEN asc ELSE Reverse(asc)
KeySeq(f, o) == KeySeqOrd(f, o.ord)

-----------------------------------------------------------------------------
\* a null somewhere in a value; an expression that only reads the document / a literal
RECURSIVE HasNull(_), PlainPath(_)
HasNull(v) == CASE v[1] = "null" -> TRUE
                [] v[1] = "arr" -> \E i \in 1..Len(v[2]) : HasNull(v[2][i])
                [] v[1] = "obj" -> \E k \in DOMAIN v[2] : HasNull(v[2][k])
                [] OTHER -> FALSE
PlainPath(e) == CASE e[1] \in {"cur", "fld", "lit", "raw"} -> TRUE
                  [] e[1] \in {"par", "idx"} -> PlainPath(e[2])
                  [] e[1] = "sub" -> PlainPath(e[2]) /\ PlainPath(e[3])
                  [] OTHER -> FALSE

(* "false-like" values (or-expression, and-expression, not-expression,     *)
(* filter-expression): empty list, empty object, empty string, false, null *)
Truthy(v) == ~(\/ v[1] = "null"
               \/ (v[1] = "bool" /\ v[2] = FALSE)
               \/ (v[1] = "str" /\ v[2] = <<>>)
               \/ (v[1] = "arr" /\ v[2] = <<>>)
               \/ (v[1] = "obj" /\ DOMAIN v[2] = {}))

(* index-expression: negative indices count from the end, anything outside *)
(* the array or a non-array yields null                                     *)
IndexOf(v, n) == IF v[1] # "arr" THEN JNull
                 ELSE LET len == Len(v[2])  i == IF n < 0 THEN len + n ELSE n
                      IN IF i >= 0 /\ i < len THEN v[2][i + 1] ELSE JNull

(* slice-expression [start:stop:step] (Python semantics, as the            *)
(* specification prescribes): step defaults to 1; a negative start/stop is  *)
(* taken from the end; both are clamped to the array; with a negative step  *)
(* the defaults are "last element" and "before the first element".         *)
Clamp(len, x, step) == IF x < 0 THEN (IF x + len < 0 THEN (IF step < 0 THEN 0 - 1 ELSE 0) ELSE x + len)
                       ELSE IF x >= len THEN (IF step < 0 THEN len - 1 ELSE len)
                       ELSE x
RECURSIVE SliceFrom(_, _, _, _)
SliceFrom(s, i, stop, step) == IF (step > 0 /\ i < stop) \/ (step < 0 /\ i > stop)
                               THEN <<s[i + 1]>> \o SliceFrom(s, i + step, stop, step)
                               ELSE <<>>
SliceOf(s, sl) == LET len == Len(s)
                      step == IF sl[3] = <<>> THEN 1 ELSE sl[3][1]
                      start == IF sl[1] = <<>> THEN (IF step < 0 THEN len - 1 ELSE 0) ELSE Clamp(len, sl[1][1], step)
                      stop == IF sl[2] = <<>> THEN (IF step < 0 THEN 0 - 1 ELSE len) ELSE Clamp(len, sl[2][1], step)
                  IN SliceFrom(s, start, stop, step)
StepZero(sl) == sl[3] # <<>> /\ sl[3][1] = 0

(* flatten operator: one level; array elements are spliced, others kept    *)
Flatten1(s) == FlattenSeq([i \in 1..Len(s) |-> IF s[i][1] = "arr" THEN s[i][2] ELSE <<s[i]>>])

(* comparator-expression: == and != on every JSON type (deep equality;     *)
(* numbers by value - canonical form makes that = );                       *)
(* ordering comparators are only defined on numbers, anything else is      *)
(* null.  Two strings: later revisions of the specification order them,    *)
(* the original one yields null -> don't-care.                             *)
Compare(op, l, r) ==
  CASE op = "eq" -> JBool(l = r)
    [] op = "ne" -> JBool(l # r)
    [] OTHER -> IF IsNum(l) /\ IsNum(r)
                THEN JBool(CASE op = "lt" -> NumLess(l, r) [] op = "le" -> ~NumLess(r, l)
                             [] op = "gt" -> NumLess(r, l) [] op = "ge" -> ~NumLess(l, r))
                ELSE IF IsStrV(l) /\ IsStrV(r) THEN DC("string-ordering")
                ELSE JNull

-----------------------------------------------------------------------------
(* Sub-expressions of a node (arguments, conditions and right-hand sides included) *)
Children(e) ==
  CASE e[1] \in {"cur", "fld", "lit", "raw"} -> <<>>
    [] e[1] \in {"par", "not", "ref", "idx"} -> <<e[2]>>
    [] e[1] \in {"sub", "pipe", "or", "and", "prj", "vpr", "flt"} -> <<e[2], e[3]>>
    [] e[1] = "cmp" -> <<e[3], e[4]>>
    [] e[1] = "slc" -> <<e[2], e[4]>>
    [] e[1] = "fil" -> <<e[2], e[3], e[4]>>
    [] e[1] = "mls" -> e[2]
    [] e[1] = "mhs" -> [i \in 1..Len(e[2]) |-> e[2][i][2]]
    [] e[1] = "fn" -> e[3]

(* Built-in functions: names, arities (variadic: merge, not_null)          *)
KnownFns == {"abs", "avg", "ceil", "contains", "ends_with", "floor", "join", "keys", "length", "map", "max",
             "max_by", "merge", "min", "min_by", "not_null", "reverse", "sort", "sort_by", "starts_with",
             "sum", "to_array", "to_number", "to_string", "type", "values"}
Arity(n) == CASE n \in {"contains", "ends_with", "join", "map", "max_by", "min_by", "sort_by", "starts_with"} -> 2
              [] n \in {"merge", "not_null"} -> 0 - 1
              [] OTHER -> 1
ArityOk(n, k) == IF Arity(n) < 0 THEN TRUE ELSE k = Arity(n)

AllNum(s) == \A i \in 1..Len(s) : IsNum(s[i])
AllBinExact(s) == \A i \in 1..Len(s) : BinExact(s[i])
AllStr(s) == \A i \in 1..Len(s) : s[i][1] = "str"
AllObj(s) == \A i \in 1..Len(s) : s[i][1] = "obj"
RECURSIVE SumNum(_, _)
SumNum(s, n) == IF n = 0 THEN JInt(0) ELSE NumAdd(SumNum(s, n - 1), s[n])

\* a occurs in s as a contiguous subsequence
SubseqOf(a, s) == \E i \in 0..(Len(s) - Len(a)) : SubSeq(s, i + 1, i + Len(a)) = a

RECURSIVE Digits(_)
Digits(n) == IF n < 10 THEN <<48 + n>> ELSE Digits(n \div 10) \o <<48 + (n % 10)>>
IntText(n) == IF n < 0 THEN <<45>> \o Digits(0 - n) ELSE Digits(n)

\* Text of a number.  DecText(m, e), e < 0: plain decimal notation with exactly -e fraction digits ("-0.25", "1.0");
\* e >= 0: mantissa "e" exponent ("1e2").
RECURSIVE PadDigits(_, _)
PadDigits(n, w) == IF w = 0 THEN <<>> ELSE PadDigits(n \div 10, w - 1) \o <<48 + (n % 10)>>
DecText(m, e) == IF e >= 0 THEN IntText(m) \o <<101>> \o Digits(e)
                 ELSE LET d == Pow10(0 - e)  am == AbsInt(m)
                      IN (IF m < 0 THEN <<45>> ELSE <<>>) \o Digits(am \div d) \o <<46>> \o PadDigits(am % d, 0 - e)
NumText(v) == IF v[1] = "int" THEN IntText(v[2]) ELSE DecText(v[2], v[3])

(* to_number on strings: "Returns the parsed number.  Any string that does not conform to the json-number  *)
(* production is converted to null."                                                                     *)
(*   json-number = [ "-" ] int [ frac ] [ exp ]      int = "0" / ( digit1-9 *DIGIT )                      *)
(*   frac = "." 1*DIGIT                              exp = ( "e" / "E" ) [ "-" / "+" ] 1*DIGIT            *)
(* ParseJsonNumber(t) = <<"no">> (not a json-number), <<"big">> (a json-number outside this model: more     *)
(* than 7 digits, an exponent beyond +-6, more than 6 fraction digits, or a value beyond 10^9) or        *)
(* <<"ok", m, e>> (the value m * 10^e).                                                                  *)
IsDigit(c) == c >= 48 /\ c <= 57
RECURSIVE DigVal(_, _, _), DigitRun(_, _)
DigVal(t, i, acc) == IF i > Len(t) THEN acc ELSE DigVal(t, i + 1, acc * 10 + (t[i] - 48))
DigitRun(t, i) == IF i <= Len(t) /\ IsDigit(t[i]) THEN DigitRun(t, i + 1) ELSE i      \* index after the digits that start at i
ParseJsonNumber(t) ==
  LET n == Len(t)
      neg == n >= 1 /\ t[1] = 45
      i0 == IF neg THEN 2 ELSE 1
      i1 == DigitRun(t, i0)                                       \* int = t[i0 .. i1-1]
      intOk == i1 > i0 /\ (i1 - i0 = 1 \/ t[i0] # 48)
      hasFrac == i1 <= n /\ t[i1] = 46
      i2 == IF hasFrac THEN DigitRun(t, i1 + 1) ELSE i1            \* fraction digits = t[i1+1 .. i2-1]
      fracOk == ~hasFrac \/ i2 > i1 + 1
      hasExp == i2 <= n /\ (t[i2] = 101 \/ t[i2] = 69)
      expNeg == hasExp /\ i2 + 1 <= n /\ t[i2 + 1] = 45
      i3 == IF hasExp /\ i2 + 1 <= n /\ (t[i2 + 1] = 43 \/ t[i2 + 1] = 45) THEN i2 + 2 ELSE i2 + 1
      i4 == IF hasExp THEN DigitRun(t, i3) ELSE i2                 \* exponent digits = t[i3 .. i4-1]
      expOk == ~hasExp \/ i4 > i3
  IN IF ~(intOk /\ fracOk /\ expOk /\ i4 = n + 1) THEN <<"no">>
     ELSE LET ds == SubSeq(t, i0, i1 - 1) \o (IF hasFrac THEN SubSeq(t, i1 + 1, i2 - 1) ELSE <<>>)
              nf == IF hasFrac THEN i2 - i1 - 1 ELSE 0
          IN IF Len(ds) > 7 \/ (hasExp /\ i4 - i3 > 1) THEN <<"big">>
             ELSE LET x == IF hasExp THEN DigVal(SubSeq(t, i3, i4 - 1), 1, 0) ELSE 0
                      m == DigVal(ds, 1, 0)
                      e == (IF expNeg THEN 0 - x ELSE x) - nf
                  IN IF x > 6 \/ e < 0 - 6 \/ (e > 0 /\ Len(ds) + e > 9) THEN <<"big">>
                     ELSE <<"ok", IF neg THEN 0 - m ELSE m, e>>
\* (known deviation "to_number-non-json-number": a string that is not a json-number but begins like a number -
\* optional "-", then a digit, "." digit, or "inf" / "nan" in any letter case - is converted to a number instead of null)
LowerCp(c) == IF c >= 65 /\ c <= 90 THEN c + 32 ELSE c
NumberLikePrefix(t) == LET i0 == IF Len(t) >= 1 /\ t[1] = 45 THEN 2 ELSE 1
                       IN i0 <= Len(t) /\ \/ IsDigit(t[i0])
                                          \/ (t[i0] = 46 /\ i0 + 1 <= Len(t) /\ IsDigit(t[i0 + 1]))
                                          \/ (i0 + 2 <= Len(t) /\ <<LowerCp(t[i0]), LowerCp(t[i0 + 1]), LowerCp(t[i0 + 2])>> \in {<<105, 110, 102>>, <<110, 97, 110>>})
ToNumberStr(t, xf) == LET p == ParseJsonNumber(t)
                      IN IF p[1] = "ok" THEN MkNum(p[2], p[3])
                         ELSE IF p[1] = "big" THEN DC("number-range")
                         ELSE IF "to_number-non-json-number" \in xf /\ NumberLikePrefix(t) THEN DC("to_number-non-json-number")
                         ELSE JNull

RECURSIVE JoinStrs(_, _, _)
JoinStrs(glue, s, i) == IF i > Len(s) THEN <<>>
                        ELSE (IF i = 1 THEN <<>> ELSE glue) \o s[i][2] \o JoinStrs(glue, s, i + 1)

RECURSIVE MergeAll(_, _)
MergeAll(s, n) == IF n = 0 THEN EmptyFn
                  ELSE LET f == MergeAll(s, n - 1)  g == s[n][2]
                       IN [k \in (DOMAIN f) \cup (DOMAIN g) |-> IF k \in DOMAIN g THEN g[k] ELSE f[k]]

(* Known deviation "merge-no-override": a member of a later argument does not replace an existing     *)
(* member when its value is an array, an object or a long string, or when the later argument was built  *)
(* by a multi-select-hash.  TRUE iff some member the specification overrides is affected.              *)
RECURSIVE HasHash(_)
HasHash(e) == e[1] = "mhs" \/ \E i \in 1..Len(Children(e)) : HasHash(Children(e)[i])
MergeNoOverrideDiffers(a, args) ==
  \E j \in 2..Len(a) : \E i \in 1..(j - 1) : \E k \in (DOMAIN a[i][2]) \cap (DOMAIN a[j][2]) :
     /\ a[i][2][k] # a[j][2][k]
     /\ \/ a[j][2][k][1] \in {"arr", "obj"}
        \/ (a[j][2][k][1] = "str" /\ Len(a[j][2][k][2]) >= 4)
        \/ HasHash(args[j])

TypeName(v) == CASE IsNum(v) -> <<110,117,109,98,101,114>>              \* "number"
                 [] v[1] = "str" -> <<115,116,114,105,110,103>>          \* "string"
                 [] v[1] = "bool" -> <<98,111,111,108,101,97,110>>       \* "boolean"
                 [] v[1] = "arr" -> <<97,114,114,97,121>>                \* "array"
                 [] v[1] = "obj" -> <<111,98,106,101,99,116>>            \* "object"
                 [] v[1] = "null" -> <<110,117,108,108>>                 \* "null"

\* extreme of a non-empty sequence of sort keys (all "int" or all "str")
RECURSIVE Extreme(_, _, _)
Extreme(s, n, wantMax) == IF n = 1 THEN s[1]
                          ELSE LET m == Extreme(s, n - 1, wantMax)
                               IN IF wantMax THEN (IF VLess(m, s[n]) THEN s[n] ELSE m)
                                  ELSE (IF VLess(s[n], m) THEN s[n] ELSE m)

-----------------------------------------------------------------------------
(* The evaluator.  Ev(e, v, o): expression e against current node v.       *)
RECURSIVE Ev(_, _, _), ProjectOver(_, _, _, _, _), ProjectW(_, _, _), FilterOver(_, _, _, _, _), EvList(_, _, _, _, _),
          EvHash(_, _, _, _, _), EvArgs(_, _, _, _, _), MapOver(_, _, _, _, _), Call(_, _, _, _),
          FilterOnValueDiffers(_, _, _, _)

(* Known deviation "filter-on-non-array": the filter is applied to a non-array left-hand side as if it  *)
(* were a single element (condition against the value itself; if it holds, the right-hand side applied *)
(* to the value).  TRUE iff that reading gives anything but the specified null.                        *)
FilterOnValueDiffers(l, cond, rhs, o) ==
  LET c == Ev(cond, l, o) IN
  IF Abn(c) THEN TRUE ELSE IF ~Truthy(c) THEN FALSE ELSE Ev(rhs, l, o) # JNull

(* Projection (wildcard, slice, flatten, filter expressions): the right-   *)
(* hand side is applied to every element; null results are dropped         *)
ProjectOver(s, i, rhs, o, acc) ==
  IF i > Len(s) THEN JArr(acc)
  ELSE LET x == Ev(rhs, s[i], o)
       IN IF Abn(x) THEN x
          ELSE ProjectOver(s, i + 1, rhs, o, IF x[1] = "null" THEN acc ELSE Append(acc, x))
Project(s, rhs, o) == IF rhs = <<"cur">> THEN JArr(SelectSeq(s, LAMBDA x : x[1] # "null")) ELSE ProjectOver(s, 1, rhs, o, <<>>)
(* Known deviation "projection-skips-null": list wildcard, hash wildcard and flatten projections do not   *)
(* apply the right-hand side to null elements (filter and slice projections do).  The two readings differ *)
(* iff there is a null element and the right-hand side maps null to something else.                      *)
ProjectW(s, rhs, o) == IF /\ "projection-skips-null" \in o.xf /\ rhs # <<"cur">>
                          /\ (\E i \in 1..Len(s) : s[i][1] = "null") /\ Ev(rhs, JNull, o) # JNull
                       THEN DC("projection-skips-null") ELSE Project(s, rhs, o)

(* filter-expression: keep the elements for which the condition is not     *)
(* false-like                                                               *)
FilterOver(s, i, cond, o, acc) ==
  IF i > Len(s) THEN <<"ok", acc>>
  ELSE LET c == Ev(cond, s[i], o)
       IN IF Abn(c) THEN c ELSE FilterOver(s, i + 1, cond, o, IF Truthy(c) THEN Append(acc, s[i]) ELSE acc)

(* multi-select-list / multi-select-hash: every expression against the     *)
(* current node, nulls kept                                                 *)
EvList(es, i, v, o, acc) ==
  IF i > Len(es) THEN JArr(acc)
  ELSE LET x == Ev(es[i], v, o) IN IF Abn(x) THEN x ELSE EvList(es, i + 1, v, o, Append(acc, x))
EvHash(kvs, i, v, o, acc) ==
  IF i > Len(kvs) THEN JObj(acc)
  ELSE LET x == Ev(kvs[i][2], v, o) IN IF Abn(x) THEN x ELSE EvHash(kvs, i + 1, v, o, Put(acc, kvs[i][1], x))

(* function arguments are evaluated in applicative order before the call;  *)
(* expression-type arguments (&e) are passed unevaluated                   *)
EvArgs(as, i, v, o, acc) ==
  IF i > Len(as) THEN <<"ok", acc>>
  ELSE IF as[i][1] = "ref" THEN EvArgs(as, i + 1, v, o, Append(acc, as[i]))
  ELSE LET x == Ev(as[i], v, o) IN IF Abn(x) THEN x ELSE EvArgs(as, i + 1, v, o, Append(acc, x))

\* apply e to every element, nulls kept (map, *_by keys)
MapOver(s, i, e, o, acc) ==
  IF i > Len(s) THEN <<"ok", acc>>
  ELSE LET x == Ev(e, s[i], o) IN IF Abn(x) THEN x ELSE MapOver(s, i + 1, e, o, Append(acc, x))

\* keys for sort_by / max_by / min_by: every key a number or every key a string, else invalid-type
\* (a mix of numbers and strings is an invalid-type error too: compliance functions.json, sort_by(people, &name))
\* (known deviation "by-key-error-ignored": an error raised while the key expression is evaluated is dropped)
KeysFor(s, e, o) == LET ks == MapOver(s, 1, e, o, <<>>)
                    IN IF ks[1] = "err" /\ "by-key-error-ignored" \in o.xf THEN DC("by-key-error-ignored")
                       ELSE IF Abn(ks) THEN ks
                       ELSE IF ~(AllNum(ks[2]) \/ AllStr(ks[2])) THEN TypeErr
                       ELSE ks

Call(name, args, v, o) ==
  IF name \notin KnownFns THEN Err("unknown-function")
  ELSE IF ~ArityOk(name, Len(args)) THEN Err("invalid-arity")
  ELSE LET ev == EvArgs(args, 1, v, o, <<>>) IN
   IF Abn(ev) THEN ev ELSE
   LET a == ev[2] IN
   CASE name = "abs" -> IF IsNum(a[1]) THEN NumAbs(a[1]) ELSE TypeErr
     \* avg: array[number]; empty -> null.  Exact: sum / length.  Outside the model (don't-care): a quotient that is not a
     \* short decimal (1/3), and elements that are not dyadic rationals (0.1): the specification says nothing about
     \* the rounding of binary floating point
     [] name = "avg" -> IF IsArrV(a[1]) /\ AllNum(a[1][2])
                        THEN LET s == a[1][2] IN
                             IF s = <<>> THEN JNull
                             ELSE IF ~AllBinExact(s) THEN DC("binary-floating-point")
                             ELSE LET q == NumDivNat(SumNum(s, Len(s)), Len(s)) IN
                                  IF q = <<>> THEN DC("not-a-short-decimal") ELSE q
                        ELSE TypeErr
     \* ceil / floor: the smallest integer >= / largest integer <= the argument
     [] name = "ceil" -> IF IsNum(a[1]) THEN NumCeil(a[1]) ELSE TypeErr
     [] name = "floor" -> IF IsNum(a[1]) THEN NumFloor(a[1]) ELSE TypeErr
     \* contains(array|string subject, any search)
     [] name = "contains" -> IF IsRef(a[2]) THEN DC("expref-as-any")
                             ELSE IF IsArrV(a[1]) THEN JBool(\E i \in 1..Len(a[1][2]) : a[1][2][i] = a[2])
                             ELSE IF IsStrV(a[1]) THEN (IF IsStrV(a[2]) THEN JBool(SubseqOf(a[2][2], a[1][2])) ELSE DC("contains-string-nonstring"))
                             ELSE TypeErr
     [] name = "ends_with" -> IF IsStrV(a[1]) /\ IsStrV(a[2]) THEN JBool(IsSuffix(a[2][2], a[1][2])) ELSE TypeErr
     [] name = "starts_with" -> IF IsStrV(a[1]) /\ IsStrV(a[2]) THEN JBool(IsPrefix(a[2][2], a[1][2])) ELSE TypeErr
     \* join(string glue, array[string])
     [] name = "join" -> IF IsStrV(a[1]) /\ IsArrV(a[2]) /\ AllStr(a[2][2]) THEN JStr(JoinStrs(a[1][2], a[2][2], 1)) ELSE TypeErr
     [] name = "keys" -> IF IsObjV(a[1]) THEN LET ks == KeySeq(a[1][2], o) IN JArr([i \in 1..Len(ks) |-> JStr(ks[i])]) ELSE TypeErr
     [] name = "values" -> IF IsObjV(a[1]) THEN LET ks == KeySeq(a[1][2], o) IN JArr([i \in 1..Len(ks) |-> a[1][2][ks[i]]]) ELSE TypeErr
     \* length(string|array|object): code points / elements / members
     [] name = "length" -> IF IsStrV(a[1]) \/ IsArrV(a[1]) THEN JInt(Len(a[1][2]))
                           ELSE IF IsObjV(a[1]) THEN JInt(Cardinality(DOMAIN a[1][2])) ELSE TypeErr
     \* map(&expr, array): like a projection but nulls are kept
     [] name = "map" -> IF IsRef(a[1]) /\ IsArrV(a[2])
                        THEN LET r == MapOver(a[2][2], 1, a[1][2], o, <<>>) IN IF Abn(r) THEN r ELSE JArr(r[2])
                        ELSE TypeErr
     \* max/min(array[number]|array[string]); empty -> null
     [] name \in {"max", "min"} -> IF IsArrV(a[1]) /\ (AllNum(a[1][2]) \/ AllStr(a[1][2]))
                                   THEN (IF a[1][2] = <<>> THEN JNull ELSE Extreme(a[1][2], Len(a[1][2]), name = "max"))
                                   ELSE TypeErr
     \* max_by/min_by(array, &expr -> number|string); which of several elements with the extreme key is
     \* returned is not specified
     [] name \in {"max_by", "min_by"} ->
          IF IsArrV(a[1]) /\ IsRef(a[2])
          THEN LET ks == KeysFor(a[1][2], a[2][2], o) IN
               IF Abn(ks) THEN ks
               ELSE IF a[1][2] = <<>> THEN JNull
               ELSE LET m == Extreme(ks[2], Len(ks[2]), name = "max_by")
                        hits == { a[1][2][i] : i \in { j \in 1..Len(ks[2]) : ks[2][j] = m } }
                    IN IF Cardinality(hits) = 1 THEN CHOOSE h \in hits : TRUE ELSE DC("tie")
          ELSE TypeErr
     \* merge(object...): later arguments win
     [] name = "merge" -> IF a = <<>> THEN DC("zero-arguments")
                          ELSE IF ~AllObj(a) THEN TypeErr
                          ELSE IF "merge-no-override" \in o.xf /\ MergeNoOverrideDiffers(a, args) THEN DC("merge-no-override")
                          ELSE JObj(MergeAll(a, Len(a)))
     \* not_null(any...): first argument that is not null, else null
     [] name = "not_null" -> IF a = <<>> THEN DC("zero-arguments")
                             ELSE IF \E i \in 1..Len(a) : IsRef(a[i]) THEN DC("expref-as-any")
                             ELSE LET nn == SelectSeq(a, LAMBDA x : x[1] # "null") IN IF nn = <<>> THEN JNull ELSE nn[1]
     [] name = "reverse" -> IF IsStrV(a[1]) THEN JStr(Reverse(a[1][2])) ELSE IF IsArrV(a[1]) THEN JArr(Reverse(a[1][2])) ELSE TypeErr
     \* sort(array[number]|array[string])
     \* (known deviation "sort-singleton": the element type of a one-element array is not checked by sort / sort_by)
     [] name = "sort" -> IF IsArrV(a[1]) /\ (AllNum(a[1][2]) \/ AllStr(a[1][2]))
                         THEN LET s == a[1][2]  ps == [i \in 1..Len(s) |-> <<s[i], s[i]>>] IN JArr(Seconds(SortPairs(ps, Len(ps))))
                         ELSE IF "sort-singleton" \in o.xf /\ IsArrV(a[1]) /\ Len(a[1][2]) = 1 THEN DC("sort-singleton")
                         ELSE TypeErr
     \* sort_by(array, &expr -> number|string): stable
     [] name = "sort_by" ->
          IF IsArrV(a[1]) /\ IsRef(a[2])
          THEN LET ks == KeysFor(a[1][2], a[2][2], o) IN
               IF ks[1] = "err" /\ "sort-singleton" \in o.xf /\ Len(a[1][2]) = 1 THEN DC("sort-singleton")
               ELSE IF Abn(ks) THEN ks
               ELSE LET s == a[1][2]  ps == [i \in 1..Len(s) |-> <<ks[2][i], s[i]>>] IN JArr(Seconds(SortPairs(ps, Len(ps))))
          ELSE TypeErr
     \* sum(array[number]); empty -> 0
     \* (elements that are not dyadic rationals: binary floating point rounding, don't-care as for avg)
     [] name = "sum" -> IF IsArrV(a[1]) /\ AllNum(a[1][2])
                        THEN (IF AllBinExact(a[1][2]) THEN SumNum(a[1][2], Len(a[1][2])) ELSE DC("binary-floating-point"))
                        ELSE TypeErr
     \* to_array: array -> itself; number, string, object, boolean -> [x]; null is not listed
     [] name = "to_array" -> IF IsArrV(a[1]) THEN a[1]
                             ELSE IF IsRef(a[1]) \/ a[1][1] = "null" THEN DC("to_array-unlisted-type") ELSE JArr(<<a[1]>>)
     \* to_number: number -> itself; string -> the number it spells or null; everything else null
     [] name = "to_number" -> IF IsNum(a[1]) THEN a[1]
                              ELSE IF IsStrV(a[1]) THEN ToNumberStr(a[1][2], o.xf)
                              ELSE IF IsRef(a[1]) THEN DC("expref-as-any") ELSE JNull
     \* to_string: string -> itself; others -> their JSON text.  Only booleans and numbers with a short fraction have
     \* a JSON text everybody agrees on ("1.5", "-0.25"; compliance: to_string(`1.2`) = "1.2").  Don't-care: white space
     \* in containers, numbers with an integer value (1 vs 1.0 vs 1e0: the value may be the result of floating point
     \* arithmetic), more than 3 fraction digits (exponent notation), and null is not listed
     [] name = "to_string" -> IF IsStrV(a[1]) THEN a[1]
                              ELSE IF a[1][1] = "bool" THEN JStr(IF a[1][2] THEN <<116,114,117,101>> ELSE <<102,97,108,115,101>>)
                              ELSE IF a[1][1] = "dec" /\ a[1][3] >= 0 - 3 /\ AbsInt(a[1][2]) < 10000000 THEN JStr(DecText(a[1][2], a[1][3]))
                              ELSE DC("json-rendering")
     [] name = "type" -> IF IsRef(a[1]) THEN DC("expref-as-any") ELSE JStr(TypeName(a[1]))

Ev(e, v, o) ==
  CASE e[1] = "cur" -> v
    \* identifier: member of an object, null for a missing member or a non-object
    [] e[1] = "fld" -> IF v[1] = "obj" /\ e[2] \in DOMAIN v[2] THEN v[2][e[2]] ELSE JNull
    [] e[1] = "lit" -> NormV(e[2])
    [] e[1] = "raw" -> JStr(e[2])
    [] e[1] = "par" -> Ev(e[2], v, o)
    \* sub-expression and pipe: right side against the result of the left side (no short cut on null)
    [] e[1] \in {"sub", "pipe"} -> LET l == Ev(e[2], v, o) IN IF Abn(l) THEN l ELSE Ev(e[3], l, o)
    [] e[1] = "idx" -> LET l == Ev(e[2], v, o) IN IF Abn(l) THEN l ELSE IndexOf(l, e[3])
    \* projections: the left side must be an array (object for the hash wildcard), otherwise null
    [] e[1] = "prj" -> LET l == Ev(e[2], v, o) IN IF Abn(l) THEN l ELSE IF l[1] # "arr" THEN JNull ELSE ProjectW(l[2], e[3], o)
    [] e[1] = "vpr" -> LET l == Ev(e[2], v, o) IN
                       IF Abn(l) THEN l ELSE IF l[1] # "obj" THEN JNull
                       ELSE LET ks == KeySeq(l[2], o) IN ProjectW([i \in 1..Len(ks) |-> l[2][ks[i]]], e[3], o)
    [] e[1] = "flt" -> LET l == Ev(e[2], v, o) IN IF Abn(l) THEN l ELSE IF l[1] # "arr" THEN JNull ELSE ProjectW(Flatten1(l[2]), e[3], o)
    \* slice: step 0 is an invalid-value error
    [] e[1] = "slc" -> LET l == Ev(e[2], v, o) IN
                       IF Abn(l) THEN l ELSE IF l[1] # "arr" THEN JNull
                       ELSE IF StepZero(e[3]) THEN Err("invalid-value")
                       ELSE Project(SliceOf(l[2], e[3]), e[4], o)
    \* "A filter expression is only defined for a JSON array.  Attempting to evaluate a filter expression
    \* against any other type will return null."
    [] e[1] = "fil" -> LET l == Ev(e[2], v, o) IN
                       IF Abn(l) THEN l
                       ELSE IF l[1] # "arr" THEN (IF "filter-on-non-array" \in o.xf /\ FilterOnValueDiffers(l, e[3], e[4], o)
                                                  THEN DC("filter-on-non-array") ELSE JNull)
                       ELSE LET k == FilterOver(l[2], 1, e[3], o, <<>>) IN IF Abn(k) THEN k ELSE Project(k[2], e[4], o)
    \* or / and: the left value if it decides, else the right value.  The specification does not say
    \* that the other side is left unevaluated: if it would fail, the outcome is don't-care.
    [] e[1] = "or" -> LET l == Ev(e[2], v, o) IN
                      IF Abn(l) THEN l
                      ELSE LET r == Ev(e[3], v, o) IN IF Truthy(l) THEN (IF Abn(r) THEN DC("short-circuit") ELSE l) ELSE r
    [] e[1] = "and" -> LET l == Ev(e[2], v, o) IN
                       IF Abn(l) THEN l
                       ELSE LET r == Ev(e[3], v, o) IN IF ~Truthy(l) THEN (IF Abn(r) THEN DC("short-circuit") ELSE l) ELSE r
    [] e[1] = "not" -> LET x == Ev(e[2], v, o) IN IF Abn(x) THEN x ELSE JBool(~Truthy(x))
    \* (known deviation "null-vs-reference-equality": a null (in) the left operand does not compare equal to the
    \* corresponding null of a right operand that was computed rather than read from the document or a literal)
    [] e[1] = "cmp" -> LET l == Ev(e[3], v, o) IN
                       IF Abn(l) THEN l ELSE LET r == Ev(e[4], v, o) IN
                       IF Abn(r) THEN r
                       ELSE IF /\ "null-vs-reference-equality" \in o.xf /\ e[2] \in {"eq", "ne"} /\ l = r
                               /\ HasNull(l) /\ ~PlainPath(e[4])
                            THEN DC("null-vs-reference-equality")
                       ELSE Compare(e[2], l, r)
    \* multi-select on null is null
    [] e[1] = "mls" -> IF v[1] = "null" THEN JNull ELSE EvList(e[2], 1, v, o, <<>>)
    [] e[1] = "mhs" -> IF v[1] = "null" THEN JNull ELSE EvHash(e[2], 1, v, o, EmptyFn)
    [] e[1] = "fn" -> Call(e[2], e[3], v, o)

-----------------------------------------------------------------------------
(* Static conditions: an unknown function, a wrong number of arguments or  *)
(* a zero slice step somewhere in the expression (and merge() / not_null()  *)
(* without arguments, on which revisions of the specification and of its   *)
(* compliance suite disagree).  When evaluation reaches                    *)
(* such a node the result is an error.  The specification does not say     *)
(* whether an implementation must (or may) report them when the node is    *)
(* never evaluated (e.g. inside a projection over an empty list), so for   *)
(* such an expression an error is always acceptable.                       *)
RECURSIVE StaticErr(_)
StaticErr(e) == \/ (e[1] = "fn" /\ (e[2] \notin KnownFns \/ ~ArityOk(e[2], Len(e[3])) \/ (Arity(e[2]) < 0 /\ e[3] = <<>>)))
                \/ (e[1] = "slc" /\ StepZero(e[3]))
                \/ \E i \in 1..Len(Children(e)) : StaticErr(Children(e)[i])

(* Does the expression enumerate object members (result may depend on the  *)
(* unspecified member order)?                                              *)
RECURSIVE UsesOrder(_)
UsesOrder(e) == \/ e[1] = "vpr"
                \/ (e[1] = "fn" /\ e[2] \in {"keys", "values"})
                \/ \E i \in 1..Len(Children(e)) : UsesOrder(Children(e)[i])

(* Can the expression trigger a value-level known deviation at all?  (Only *)
(* saves work: the classification below is skipped when FALSE.  The class  *)
(* "to_number-non-json-number" is looked for by the generator wherever     *)
(* to_number occurs, and only by the configurations that list it.)         *)
RECURSIVE MayDeviate(_)
MayDeviate(e) == \/ e[1] = "fil"
                 \/ (e[1] \in {"prj", "vpr", "flt"} /\ e[3] # <<"cur">>)
                 \/ (e[1] = "cmp" /\ e[2] \in {"eq", "ne"})
                 \/ (e[1] = "fn" /\ e[2] \in {"merge", "sort", "sort_by", "max_by", "min_by"})
                 \/ \E i \in 1..Len(Children(e)) : MayDeviate(Children(e)[i])
ValueDeviationNames == {"filter-on-non-array", "merge-no-override", "projection-skips-null", "sort-singleton",
                        "null-vs-reference-equality", "by-key-error-ignored", "to_number-non-json-number"}
ShapeDeviationNames == {"operator-before-pipe", "pipe-into-literal", "argument-context-leak", "parenthesised-operand",
                        "multiselect-leading-star"}

(* The observable of one search: result under ascending and descending     *)
(* member enumeration.                                                      *)
Env(ord, xf) == [ord |-> ord, xf |-> xf]
\* (d canonical; SearchN / SearchDescN accept any document)
Search(e, d) == Ev(e, d, Env("asc", {}))
SearchDesc(e, d) == Ev(e, d, Env("desc", {}))
SearchN(e, d) == Search(e, NormV(d))
SearchDescN(e, d) == SearchDesc(e, NormV(d))

-----------------------------------------------------------------------------------------------------------------------------------------------------
(* KNOWN DEVIATIONS of the implementation under test that are triggered by *)
(* the shape of the expression (notes/C13.md, "SUSPECTED DEFECTS").  Used   *)
(* only to tag generated cases with the class names (field "dev").         *)
(*  "operator-before-pipe": the pipe has the lowest precedence (the        *)
(*    specification's list: pipe < or < and < unary not), so "!a | b" is   *)
(*    "(!a) | b" and "a || b | c" is "(a || b) | c".  Affected: a pipe     *)
(*    whose left operand ends in a not / comparator / && / || expression   *)
(*    outside parentheses and brackets.                                     *)
(*  "pipe-into-literal": pipe-expression = expression "|" expression and a *)
(*    literal or raw string is an expression.  Affected: a pipe whose      *)
(*    right operand starts with a literal or a raw string.                 *)
(*  "argument-context-leak": every function argument is evaluated against  *)
(*    the current node.  Affected: a call in which an argument contains a  *)
(*    pipe or a projection and a later argument is neither a constant nor  *)
(*    an expression-type.                                                   *)
(*  "multiselect-leading-star": "[" "*" only starts a list wildcard when    *)
(*    "]" follows; otherwise it starts a multi-select-list whose first     *)
(*    element begins with a hash wildcard (compliance: "[*.*]").           *)
(*    Affected: a multi-select-list whose first element starts with "*".   *)
(*  "parenthesised-operand": a paren-expression is an expression like any  *)
(*    other.  Affected: a not / comparator / && / || expression with an    *)
(*    operand that contains a parenthesised pipe or projection.            *)
RECURSIVE OpenOperand(_), LeftLeaf(_), HasPipeOrProjection(_), HasOperatorBeforePipe(_), HasPipeIntoLiteral(_), HasArgumentContextLeak(_),
          HasParenPP(_), HasParenthesisedOperand(_), StartsWithStar(_), HasLeadingStar(_)
OpenOperand(l) == l[1] \in {"not", "cmp", "and", "or"} \/ (l[1] = "pipe" /\ (OpenOperand(l[2]) \/ OpenOperand(l[3])))
LeftLeaf(r) == CASE r[1] \in {"sub", "idx", "prj", "vpr", "flt", "slc", "fil", "pipe", "or", "and", "par"} -> LeftLeaf(r[2])
                 [] r[1] = "cmp" -> LeftLeaf(r[3])
                 [] OTHER -> r
HasPipeOrProjection(e) == e[1] \in {"pipe", "prj", "vpr", "flt", "slc", "fil"} \/ \E i \in 1..Len(Children(e)) : HasPipeOrProjection(Children(e)[i])
HasOperatorBeforePipe(e) == (e[1] = "pipe" /\ OpenOperand(e[2])) \/ \E i \in 1..Len(Children(e)) : HasOperatorBeforePipe(Children(e)[i])
HasPipeIntoLiteral(e) == (e[1] = "pipe" /\ LeftLeaf(e[3])[1] \in {"lit", "raw"}) \/ \E i \in 1..Len(Children(e)) : HasPipeIntoLiteral(Children(e)[i])
HasArgumentContextLeak(e) ==
  \/ (e[1] = "fn" /\ \E i \in 1..Len(e[3]) : \E j \in (i + 1)..Len(e[3]) :
                        HasPipeOrProjection(e[3][i]) /\ e[3][j][1] \notin {"lit", "raw", "ref"})
  \/ \E i \in 1..Len(Children(e)) : HasArgumentContextLeak(Children(e)[i])
HasParenPP(e) == (e[1] = "par" /\ HasPipeOrProjection(e[2])) \/ \E i \in 1..Len(Children(e)) : HasParenPP(Children(e)[i])
HasParenthesisedOperand(e) == (e[1] \in {"not", "and", "or", "cmp"} /\ \E i \in 1..Len(Children(e)) : HasParenPP(Children(e)[i]))
                              \/ \E i \in 1..Len(Children(e)) : HasParenthesisedOperand(Children(e)[i])
StartsWithStar(e) == CASE e[1] = "vpr" -> e[2] = <<"cur">> \/ StartsWithStar(e[2])
                       [] e[1] \in {"sub", "idx", "prj", "flt", "slc", "fil", "pipe", "or", "and"} -> StartsWithStar(e[2])
                       [] e[1] = "cmp" -> StartsWithStar(e[3])
                       [] OTHER -> FALSE
HasLeadingStar(e) == (e[1] = "mls" /\ StartsWithStar(e[2][1])) \/ \E i \in 1..Len(Children(e)) : HasLeadingStar(Children(e)[i])
ShapeDeviation(e, xf) == \/ ("operator-before-pipe" \in xf /\ HasOperatorBeforePipe(e))
                         \/ ("pipe-into-literal" \in xf /\ HasPipeIntoLiteral(e))
                         \/ ("argument-context-leak" \in xf /\ HasArgumentContextLeak(e))
                         \/ ("parenthesised-operand" \in xf /\ HasParenthesisedOperand(e))
                         \/ ("multiselect-leading-star" \in xf /\ HasLeadingStar(e))

-----
(* UN-PARSER.  Show(e) is the expression string (code points).             *)
FnCps(n) ==
  CASE n = "abs" -> <<97,98,115>> [] n = "avg" -> <<97,118,103>> [] n = "ceil" -> <<99,101,105,108>>
    [] n = "contains" -> <<99,111,110,116,97,105,110,115>> [] n = "ends_with" -> <<101,110,100,115,95,119,105,116,104>>
    [] n = "floor" -> <<102,108,111,111,114>> [] n = "join" -> <<106,111,105,110>> [] n = "keys" -> <<107,101,121,115>>
    [] n = "length" -> <<108,101,110,103,116,104>> [] n = "map" -> <<109,97,112>> [] n = "max" -> <<109,97,120>>
    [] n = "max_by" -> <<109,97,120,95,98,121>> [] n = "merge" -> <<109,101,114,103,101>> [] n = "min" -> <<109,105,110>>
    [] n = "min_by" -> <<109,105,110,95,98,121>> [] n = "not_null" -> <<110,111,116,95,110,117,108,108>>
    [] n = "reverse" -> <<114,101,118,101,114,115,101>> [] n = "sort" -> <<115,111,114,116>>
    [] n = "sort_by" -> <<115,111,114,116,95,98,121>> [] n = "starts_with" -> <<115,116,97,114,116,115,95,119,105,116,104>>
    [] n = "sum" -> <<115,117,109>> [] n = "to_array" -> <<116,111,95,97,114,114,97,121>>
    [] n = "to_number" -> <<116,111,95,110,117,109,98,101,114>> [] n = "to_string" -> <<116,111,95,115,116,114,105,110,103>>
    [] n = "type" -> <<116,121,112,101>> [] n = "values" -> <<118,97,108,117,101,115>>
    [] n = "foo" -> <<102,111,111>>                                    \* not a built-in

\* unquoted-string = (A-Za-z_) *(0-9A-Za-z_)
IsAlpha_(c) == (c >= 65 /\ c <= 90) \/ (c >= 97 /\ c <= 122) \/ c = 95
IsUnquoted(k) == Len(k) >= 1 /\ IsAlpha_(k[1]) /\ \A i \in 1..Len(k) : IsAlpha_(k[i]) \/ IsDigit(k[i])
\* characters that can be written inside "..." (quoted-string and JSON string): " and \ escaped, \n \t by
\* their short escapes, other controls are not generated
EscCp(c) == CASE c = 34 -> <<92, 34>> [] c = 92 -> <<92, 92>> [] c = 10 -> <<92, 110>> [] c = 9 -> <<92, 116>> [] OTHER -> <<c>>
StrSafe(s) == \A i \in 1..Len(s) : (s[i] >= 32 \/ s[i] = 10 \/ s[i] = 9) /\ s[i] # 96
Quoted(s) == <<34>> \o FlattenSeq([i \in 1..Len(s) |-> EscCp(s[i])]) \o <<34>>
\* identifier = unquoted-string / quoted-string ; quoted-string has at least one character
Ident(k) == IF IsUnquoted(k) THEN k ELSE Quoted(k)
IdentOk(k) == Len(k) >= 1 /\ StrSafe(k)
\* raw-string: ' escaped as \' ; backslashes are not generated (their reading changed between revisions)
RawSafe(s) == \A i \in 1..Len(s) : s[i] >= 32 /\ s[i] # 92
RawText(s) == <<39>> \o FlattenSeq([i \in 1..Len(s) |-> IF s[i] = 39 THEN <<92, 39>> ELSE <<s[i]>>]) \o <<39>>

RECURSIVE Commas(_, _)
Commas(ss, i) == IF i > Len(ss) THEN <<>> ELSE (IF i = 1 THEN <<>> ELSE <<44, 32>>) \o ss[i] \o Commas(ss, i + 1)

\* JSON text of a literal value (members in ascending key order)
RECURSIVE JsonTextOf(_)
JsonTextOf(v) ==
  CASE v[1] = "null" -> <<110,117,108,108>>
    [] v[1] = "bool" -> IF v[2] THEN <<116,114,117,101>> ELSE <<102,97,108,115,101>>
    [] v[1] = "int" -> IntText(v[2])
    [] v[1] = "dec" -> DecText(v[2], v[3])
    [] v[1] = "str" -> Quoted(v[2])
    [] v[1] = "arr" -> <<91>> \o Commas([i \in 1..Len(v[2]) |-> JsonTextOf(v[2][i])], 1) \o <<93>>
    [] v[1] = "obj" -> LET ks == KeySeqOrd(v[2], "asc") IN
                       <<123>> \o Commas([i \in 1..Len(ks) |-> Quoted(ks[i]) \o <<58, 32>> \o JsonTextOf(v[2][ks[i]])], 1) \o <<125>>
RECURSIVE ValueSafe(_)
ValueSafe(v) == CASE v[1] = "str" -> StrSafe(v[2])
                  [] v[1] = "arr" -> \A i \in 1..Len(v[2]) : ValueSafe(v[2][i])
                  [] v[1] = "obj" -> \A k \in DOMAIN v[2] : StrSafe(k) /\ ValueSafe(v[2][k])
                  [] OTHER -> TRUE

CmpText(op) == CASE op = "eq" -> <<61,61>> [] op = "ne" -> <<33,61>> [] op = "lt" -> <<60>> [] op = "le" -> <<60,61>>
                 [] op = "gt" -> <<62>> [] op = "ge" -> <<62,61>>
SlicePart(x) == IF x = <<>> THEN <<>> ELSE IntText(x[1])
SliceText(sl) == SlicePart(sl[1]) \o <<58>> \o SlicePart(sl[2]) \o (IF sl[3] = <<>> THEN <<>> ELSE <<58>> \o SlicePart(sl[3]))

Cur == <<"cur">>
RECURSIVE Show(_), Cont(_), ShowArg(_)
Lhs(l) == IF l = Cur THEN <<>> ELSE Show(l)
ShowArg(a) == IF a[1] = "ref" THEN <<38>> \o Show(a[2]) ELSE Show(a)
Show(e) ==
  CASE e[1] = "cur" -> <<64>>
    [] e[1] = "fld" -> Ident(e[2])
    [] e[1] = "lit" -> <<96>> \o JsonTextOf(e[2]) \o <<96>>
    [] e[1] = "raw" -> RawText(e[2])
    [] e[1] = "par" -> <<40>> \o Show(e[2]) \o <<41>>
    [] e[1] = "sub" -> Show(e[2]) \o <<46>> \o Show(e[3])
    [] e[1] = "idx" -> Lhs(e[2]) \o <<91>> \o IntText(e[3]) \o <<93>>
    [] e[1] = "prj" -> Lhs(e[2]) \o <<91, 42, 93>> \o Cont(e[3])
    [] e[1] = "vpr" -> (IF e[2] = Cur THEN <<42>> ELSE Show(e[2]) \o <<46, 42>>) \o Cont(e[3])
    [] e[1] = "flt" -> Lhs(e[2]) \o <<91, 93>> \o Cont(e[3])
    [] e[1] = "slc" -> Lhs(e[2]) \o <<91>> \o SliceText(e[3]) \o <<93>> \o Cont(e[4])
    [] e[1] = "fil" -> Lhs(e[2]) \o <<91, 63>> \o Show(e[3]) \o <<93>> \o Cont(e[4])
    [] e[1] = "pipe" -> Show(e[2]) \o <<32, 124, 32>> \o Show(e[3])
    [] e[1] = "or" -> Show(e[2]) \o <<32, 124, 124, 32>> \o Show(e[3])
    [] e[1] = "and" -> Show(e[2]) \o <<32, 38, 38, 32>> \o Show(e[3])
    [] e[1] = "not" -> <<33>> \o Show(e[2])
    [] e[1] = "cmp" -> Show(e[3]) \o <<32>> \o CmpText(e[2]) \o <<32>> \o Show(e[4])
    [] e[1] = "mls" -> <<91>> \o Commas([i \in 1..Len(e[2]) |-> Show(e[2][i])], 1) \o <<93>>
    [] e[1] = "mhs" -> <<123>> \o Commas([i \in 1..Len(e[2]) |-> Ident(e[2][i][1]) \o <<58, 32>> \o Show(e[2][i][2])], 1) \o <<125>>
    [] e[1] = "fn" -> FnCps(e[2]) \o <<40>> \o Commas([i \in 1..Len(e[3]) |-> ShowArg(e[3][i])], 1) \o <<41>>
\* the right-hand side of a projection, written as the continuation of the expression
Cont(r) ==
  CASE r[1] = "cur" -> <<>>
    [] r[1] \in {"fld", "mls", "mhs", "fn"} -> <<46>> \o Show(r)
    [] r[1] = "sub" -> Cont(r[2]) \o <<46>> \o Show(r[3])
    [] r[1] = "idx" -> Cont(r[2]) \o <<91>> \o IntText(r[3]) \o <<93>>
    [] r[1] = "prj" -> Cont(r[2]) \o <<91, 42, 93>> \o Cont(r[3])
    [] r[1] = "vpr" -> Cont(r[2]) \o <<46, 42>> \o Cont(r[3])
    [] r[1] = "slc" -> Cont(r[2]) \o <<91>> \o SliceText(r[3]) \o <<93>> \o Cont(r[4])
    [] r[1] = "fil" -> Cont(r[2]) \o <<91, 63>> \o Show(r[3]) \o <<93>> \o Cont(r[4])

-----------------------------------------------------------------------------
(* Renderable(e): Show(e) is a JMESPath expression whose reading is e,     *)
(* using only the precedences the specification documents: pipe < or <     *)
(* and < comparators < everything that binds at bracket/dot level, "!"     *)
(* applied to an atom, and the projection rule "what follows a wildcard,   *)
(* slice, flatten or filter (up to a pipe, ||, &&, comparator, flatten or  *)
(* closing bracket) is applied to each element".  Anything the grammar     *)
(* leaves ambiguous needs an explicit "par" node or is not generated:      *)
(*   - a postfix after an open projection belongs to its right-hand side   *)
(*     (so "par" is needed to index the projected list);                   *)
(*   - "!" directly before a dotted / indexed expression;                  *)
(*   - chained comparators;                                                *)
(*   - a filter inside the right-hand side of a filter projection, and     *)
(*     postfixes after a ".[..]" / ".{..}" that starts a right-hand side   *)
(*     (reference implementations disagree with the obvious reading);      *)
(*   - "[*]" as a one-element multi-select of "*"; duplicate hash keys.    *)
ClosedK == {"cur", "fld", "lit", "raw", "par", "mls", "mhs", "fn", "sub", "idx"}
OpenK == {"prj", "vpr", "flt", "slc", "fil"}
DotRhsK == {"fld", "mls", "mhs", "fn"}
Lvl(e) == CASE e[1] \in ClosedK \cup OpenK -> 9 [] e[1] = "not" -> 8 [] e[1] = "cmp" -> 5
            [] e[1] = "and" -> 3 [] e[1] = "or" -> 2 [] e[1] = "pipe" -> 1

RECURSIVE Renderable(_), RhsOk(_, _), ClosedRhs(_, _), ArgOk(_)
ArgOk(a) == IF a[1] = "ref" THEN Renderable(a[2]) ELSE Renderable(a)
LhsOk(l) == l = Cur \/ (l[1] \in ClosedK /\ Renderable(l))
\* a right-hand-side chain that may be continued by a further postfix
ClosedRhs(r, inFil) ==
  CASE r[1] \in {"fld", "fn"} -> Renderable(r)
    [] r[1] = "sub" -> ClosedRhs(r[2], inFil) /\ r[3][1] \in {"fld", "fn"} /\ Renderable(r[3])
    [] r[1] = "idx" -> r[2] = Cur \/ ClosedRhs(r[2], inFil)
    [] OTHER -> FALSE
RhsOk(r, inFil) ==
  \/ r = Cur
  \/ CASE r[1] \in DotRhsK -> Renderable(r)
       [] r[1] = "sub" -> ClosedRhs(r[2], inFil) /\ r[3][1] \in DotRhsK /\ Renderable(r[3])
       [] r[1] = "idx" -> r[2] = Cur \/ ClosedRhs(r[2], inFil)
       [] r[1] \in {"prj", "vpr"} -> (r[2] = Cur \/ ClosedRhs(r[2], inFil)) /\ RhsOk(r[3], inFil)
       [] r[1] = "slc" -> (r[2] = Cur \/ ClosedRhs(r[2], inFil)) /\ RhsOk(r[4], inFil)
       [] r[1] = "fil" -> ~inFil /\ (r[2] = Cur \/ ClosedRhs(r[2], inFil)) /\ Renderable(r[3]) /\ RhsOk(r[4], TRUE)
       [] OTHER -> FALSE
Renderable(e) ==
  CASE e[1] = "cur" -> TRUE
    [] e[1] = "fld" -> IdentOk(e[2])
    [] e[1] = "lit" -> ValueSafe(e[2])
    [] e[1] = "raw" -> RawSafe(e[2])
    [] e[1] = "par" -> Renderable(e[2])
    [] e[1] = "sub" -> e[2][1] \in ClosedK /\ Renderable(e[2]) /\ e[3][1] \in DotRhsK /\ Renderable(e[3])
    [] e[1] = "idx" -> LhsOk(e[2])
    [] e[1] \in {"prj", "vpr"} -> LhsOk(e[2]) /\ RhsOk(e[3], FALSE)
    [] e[1] = "flt" -> (e[2] = Cur \/ (e[2][1] \in ClosedK \cup OpenK /\ Renderable(e[2]))) /\ RhsOk(e[3], FALSE)
    [] e[1] = "slc" -> LhsOk(e[2]) /\ RhsOk(e[4], FALSE)
    [] e[1] = "fil" -> LhsOk(e[2]) /\ Renderable(e[3]) /\ RhsOk(e[4], TRUE)
    [] e[1] = "not" -> e[2][1] \in {"cur", "fld", "lit", "raw", "par", "mls", "mhs", "fn", "not"} /\ Renderable(e[2])
    [] e[1] = "cmp" -> Lvl(e[3]) = 9 /\ Lvl(e[4]) = 9 /\ Renderable(e[3]) /\ Renderable(e[4])
    [] e[1] = "and" -> Lvl(e[2]) >= 3 /\ Lvl(e[3]) >= 5 /\ Renderable(e[2]) /\ Renderable(e[3])
    [] e[1] = "or" -> Lvl(e[2]) >= 2 /\ Lvl(e[3]) >= 3 /\ Renderable(e[2]) /\ Renderable(e[3])
    [] e[1] = "pipe" -> Lvl(e[3]) >= 2 /\ Renderable(e[2]) /\ Renderable(e[3])
    [] e[1] = "mls" -> /\ Len(e[2]) >= 1
                       /\ \A i \in 1..Len(e[2]) : Renderable(e[2][i])
                       /\ ~(Len(e[2]) = 1 /\ e[2][1] = <<"vpr", Cur, Cur>>)
    [] e[1] = "mhs" -> /\ Len(e[2]) >= 1
                       /\ \A i \in 1..Len(e[2]) : IdentOk(e[2][i][1]) /\ Renderable(e[2][i][2])
                       /\ \A i, j \in 1..Len(e[2]) : i # j => e[2][i][1] # e[2][j][1]
    [] e[1] = "fn" -> \A i \in 1..Len(e[3]) : ArgOk(e[3][i])

(* Wire form of an expression tree (literal values in JsonValue!Wire form) *)
(* for the parse(show(e)) = e validation done outside TLC.                 *)
RECURSIVE AstWire(_)
AstWire(e) ==
  CASE e[1] \in {"cur", "fld", "raw"} -> e
    [] e[1] = "lit" -> <<"lit", Wire(e[2])>>
    [] e[1] \in {"par", "not", "ref"} -> <<e[1], AstWire(e[2])>>
    [] e[1] \in {"sub", "pipe", "or", "and", "prj", "vpr", "flt"} -> <<e[1], AstWire(e[2]), AstWire(e[3])>>
    [] e[1] = "idx" -> <<"idx", AstWire(e[2]), e[3]>>
    [] e[1] = "cmp" -> <<"cmp", e[2], AstWire(e[3]), AstWire(e[4])>>
    [] e[1] = "slc" -> <<"slc", AstWire(e[2]), e[3], AstWire(e[4])>>
    [] e[1] = "fil" -> <<"fil", AstWire(e[2]), AstWire(e[3]), AstWire(e[4])>>
    [] e[1] = "mls" -> <<"mls", [i \in 1..Len(e[2]) |-> AstWire(e[2][i])]>>
    [] e[1] = "mhs" -> <<"mhs", [i \in 1..Len(e[2]) |-> <<e[2][i][1], AstWire(e[2][i][2])>>]>>
    [] e[1] = "fn" -> <<"fn", e[2], [i \in 1..Len(e[3]) |-> AstWire(e[3][i])]>>
=============================================================================
