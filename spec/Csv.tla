-------------------------------- MODULE Csv --------------------------------
(***************************************************************************)
(* CSV as jsoncons documents it, written from                              *)
(*   [RFC]  RFC 4180 section 2 (the format and its ABNF), and              *)
(*   [OPT]  /repo/doc/ref/csv/basic_csv_options.md, quote_style_kind.md,   *)
(*          csv_mapping_kind.md, decode_csv.md, encode_csv.md              *)
(* NOT from jsoncons' csv_parser.hpp / csv_encoder.hpp.  It is the oracle  *)
(* of property C18.                                                        *)
(*                                                                         *)
(* Contents                                                                *)
(*   1. options and tables (the data model of the property)                *)
(*   2. the reader: a character-level state machine Scan that turns a CSV  *)
(*      text into records of (quoted?, text) fields, the typing of fields  *)
(*      (infer_types) and the three mappings to JSON                       *)
(*   3. the quoting rule MustQuote and a reference writer SpecEncode       *)
(*   4. the proviso of the property (SideCond) and the model-level         *)
(*      round-trip law  ReadTable(SpecEncode(t, o), o) = t                 *)
(*   5. TOON: value space and round-trip law (syntax not modelled)         *)
(*                                                                         *)
(* All text is a sequence of Unicode code points.  Cells are JsonValue     *)
(* scalars  <<"str", cps>>  <<"int", n>>  <<"bool", b>>  <<"null">>.       *)
(***************************************************************************)
EXTENDS Integers, Sequences, FiniteSets, JsonValue

LF == 10   CR == 13   SPACE == 32   TAB == 9
DQUOTE == 34   SQUOTE == 39   COMMA == 44   SEMI == 59   PIPE == 124   BSLASH == 92

(***************************************************************************)
(* 1. Options and tables                                                   *)
(*                                                                         *)
(* An option record o has                                                  *)
(*   fd      field_delimiter   [OPT] "A character that indicates the end   *)
(*           of a field" / "Character to separate values", default ','     *)
(*   qc      quote_char        [OPT] "A character to quote fields", '"'    *)
(*   ec      quote_escape_char [OPT] "A character to escape quote          *)
(*           characters occurring inside quoted fields"; default: the      *)
(*           quote character is doubled ([RFC] 2.7)                        *)
(*   style   quote_style       [OPT] quote_style_kind: minimal all         *)
(*           nonnumeric none                                               *)
(*   ld      line_delimiter    [OPT] writing: "An end-of-line string that  *)
(*           marks the end of a row"; reading: "Not used.  When reading,   *)
(*           the parser accepts \n, \r and \r\n"                           *)
(*   infer   infer_types       [OPT] "Infer null, true, false, integers    *)
(*           and floating point values in the CSV source", default true    *)
(*   mapping mapping_kind      [OPT] csv_mapping_kind n_rows n_objects     *)
(*           m_columns                                                     *)
(*   header  "none"   no header line                                       *)
(*           "assume" assume_header: "Assume first row in file is header,  *)
(*                    use field names to construct objects"                *)
(*           "names"  column_names ("Use these column names when reading   *)
(*                    the file" / "Write these column names to the header  *)
(*                    line") together with header_lines = 1 ("Number of    *)
(*                    header lines in the CSV text")                       *)
(*   iel     ignore_empty_lines [OPT] "all lines in the file that are      *)
(*           empty (apart from record delimiter characters) are ignored",  *)
(*           default true                                                  *)
(* A table is [names |-> sequence of column names (<<>> without header),   *)
(*             rows  |-> sequence of rows, each a sequence of cells].      *)
(***************************************************************************)
Styles == {"minimal", "all", "nonnumeric", "none"}
Mappings == {"n_rows", "n_objects", "m_columns"}
Headers == {"none", "assume", "names"}

\* options under which the documents define a reading at all (everything else is don't-care):
\* three distinct structural characters, none of them a line break or a space; a line
\* delimiter the reader recognises; a mapping that has the names it needs
WellFormedOptions(o) ==
  /\ o.fd # o.qc /\ o.fd # o.ec
  /\ {o.fd, o.qc, o.ec} \cap {CR, LF, SPACE} = {}
  /\ o.ld \in {<<LF>>, <<CR, LF>>, <<CR>>}
  /\ o.style \in Styles /\ o.mapping \in Mappings /\ o.header \in Headers
  /\ (o.mapping = "n_rows") \/ (o.header # "none")        \* objects and columns need names
  /\ (o.mapping = "m_columns") => (o.header = "assume")

IsCell(c) == c[1] \in {"str", "int", "bool", "null"}
IsStr(c) == c[1] = "str"
NCols(t) == Len(t.rows[1])
\* [RFC] 2 ABNF: file = record *(CRLF record), record = field *(COMMA field): at least one
\* record with at least one field; 2.4: "Each line should contain the same number of fields"
WellFormedTable(t, o) ==
  /\ Len(t.rows) >= 1 /\ NCols(t) >= 1
  /\ \A i \in 1..Len(t.rows) : Len(t.rows[i]) = NCols(t) /\ \A j \in 1..NCols(t) : IsCell(t.rows[i][j])
  /\ IF o.header = "none" THEN t.names = <<>>
     ELSE /\ Len(t.names) = NCols(t)
          /\ \A i, j \in 1..Len(t.names) : i # j => t.names[i] # t.names[j]   \* object members are unique
AllStrings(t) == \A i \in 1..Len(t.rows) : \A j \in 1..Len(t.rows[i]) : IsStr(t.rows[i][j])

\* the JSON value that carries table t under each mapping ([OPT] csv_mapping_kind:
\* n_rows "array of arrays", n_objects "array of objects", m_columns "object with
\* name/array-value pairs").  Objects are functions, i.e. compared as maps.
RowObj(names, row) == JObj([k \in {names[j] : j \in 1..Len(names)} |->
                              row[CHOOSE j \in 1..Len(names) : names[j] = k]])
Column(t, j) == JArr([i \in 1..Len(t.rows) |-> t.rows[i][j]])
Shape(t, o) ==
  CASE o.mapping = "n_rows" -> JArr([i \in 1..Len(t.rows) |-> JArr(t.rows[i])])
    [] o.mapping = "n_objects" -> JArr([i \in 1..Len(t.rows) |-> RowObj(t.names, t.rows[i])])
    [] o.mapping = "m_columns" -> JObj([k \in {t.names[j] : j \in 1..Len(t.names)} |->
                                          Column(t, CHOOSE j \in 1..Len(t.names) : t.names[j] = k)])

(***************************************************************************)
(* 2. The reader                                                           *)
(*                                                                         *)
(* Scan is the [RFC] 2 grammar as a state machine, generalised by [OPT] to *)
(* any field delimiter / quote / quote-escape character and to the three   *)
(* line breaks LF, CR, CRLF:                                               *)
(*   file        = record *(break record) [break]                 (2.1/2.2)*)
(*   record      = field *(fd field)                              (2.4)    *)
(*   field       = escaped / non-escaped                                   *)
(*   escaped     = qc *(char-but-qc / ec qc) qc                   (2.5-2.7)*)
(*   non-escaped = *(char but fd, qc, CR, LF)                     (2.5)    *)
(* States: "ls" at the start of a line, "fs" at the start of a field after *)
(* a delimiter, "uq" inside a non-escaped field, "q" inside an escaped     *)
(* field, "qq" (ec = qc) after a quote inside an escaped field - either    *)
(* the closing quote or the first half of a doubled quote -, "qe" (ec # qc)*)
(* after the escape character inside an escaped field, "aq" after the      *)
(* closing quote.                                                          *)
(* Result: <<"ok", records>> with records a sequence of sequences of       *)
(* fields [q |-> was it enclosed in quotes, t |-> its text];               *)
(* <<"err", why>> if the text is not in the grammar;                       *)
(* <<"unspec">> where the documents are silent (see QE below).             *)
(* 2.4 "Spaces are considered part of a field and should not be ignored"   *)
(* (the trim options default to false): no character is ever dropped.      *)
(***************************************************************************)
Fld(q, t) == [q |-> q, t |-> t]
IsBreak(c) == c = CR \/ c = LF
\* CR LF is one line break ([OPT] line_delimiter: "the parser accepts \n, \r and \r\n")
BreakLen(txt, i) == IF txt[i] = CR /\ i < Len(txt) /\ txt[i + 1] = LF THEN 2 ELSE 1
\* [OPT] ignore_empty_lines: a line with nothing on it is dropped; otherwise ([RFC] ABNF) it
\* is a record of one empty non-escaped field
EmptyLine(rec) == rec = << Fld(FALSE, <<>>) >>
AddRec(recs, rec, o) == IF o.iel /\ EmptyLine(rec) THEN recs ELSE Append(recs, rec)

RECURSIVE Scan(_, _, _, _, _, _, _)
Scan(txt, i, st, fld, rec, recs, o) ==
  IF i > Len(txt) THEN
    \* end of input; 2.2 "The last record in the file may or may not have an ending line break"
    CASE st = "ls" -> <<"ok", recs>>
      [] st = "fs" -> <<"ok", AddRec(recs, Append(rec, Fld(FALSE, <<>>)), o)>>
      [] st = "uq" -> <<"ok", AddRec(recs, Append(rec, Fld(FALSE, fld)), o)>>
      [] st = "aq" \/ st = "qq" -> <<"ok", Append(recs, Append(rec, Fld(TRUE, fld)))>>
      [] st = "q" \/ st = "qe" -> <<"err", "end of input inside a quoted field">>
  ELSE
    LET c == txt[i]
        bl == BreakLen(txt, i)
        \* what a character does once the current field (cur) is complete
        AfterField(cur) ==
          CASE c = o.fd -> Scan(txt, i + 1, "fs", <<>>, Append(rec, cur), recs, o)
            [] IsBreak(c) -> Scan(txt, i + bl, "ls", <<>>, <<>>, AddRec(recs, Append(rec, cur), o), o)
            [] OTHER -> <<"err", "character between closing quote and delimiter">>
    IN
    CASE st = "ls" \/ st = "fs" ->
           CASE c = o.qc -> Scan(txt, i + 1, "q", <<>>, rec, recs, o)          \* 2.5 opening quote
             [] c = o.fd \/ IsBreak(c) -> AfterField(Fld(FALSE, <<>>))        \* empty non-escaped field
             [] OTHER -> Scan(txt, i + 1, "uq", <<c>>, rec, recs, o)
      [] st = "uq" ->
           CASE c = o.qc -> <<"err", "quote character inside a non-escaped field">>   \* TEXTDATA excludes DQUOTE
             [] c = o.fd \/ IsBreak(c) -> AfterField(Fld(FALSE, fld))
             [] OTHER -> Scan(txt, i + 1, "uq", Append(fld, c), rec, recs, o)
      [] st = "q" ->
           \* 2.6 line breaks, quotes and delimiters may appear inside an escaped field
           CASE c = o.qc /\ o.ec = o.qc -> Scan(txt, i + 1, "qq", fld, rec, recs, o)
             [] c = o.qc -> Scan(txt, i + 1, "aq", fld, rec, recs, o)         \* closing quote (ec # qc)
             [] c = o.ec -> Scan(txt, i + 1, "qe", fld, rec, recs, o)         \* (ec # qc here)
             [] OTHER -> Scan(txt, i + 1, "q", Append(fld, c), rec, recs, o)
      [] st = "qq" ->
           \* 2.7 "a double quote appearing inside a field must be escaped by preceding it with
           \* another double quote"
           IF c = o.qc THEN Scan(txt, i + 1, "q", Append(fld, c), rec, recs, o)
           ELSE AfterField(Fld(TRUE, fld))
      [] st = "qe" ->
           \* QE: [OPT] quote_escape_char "escapes quote characters occurring inside quoted
           \* fields".  ec qc is the quote; ec ec is read as the escape character itself (the only
           \* reading under which a field containing ec can be written at all); what ec followed by
           \* anything else denotes is not documented: unspecified.
           CASE c = o.qc \/ c = o.ec -> Scan(txt, i + 1, "q", Append(fld, c), rec, recs, o)
             [] OTHER -> <<"unspec">>
      [] st = "aq" -> AfterField(Fld(TRUE, fld))

Records(txt, o) == Scan(txt, 1, "ls", <<>>, <<>>, <<>>, o)

(* Typing of a field.  [OPT] infer_types: "Infer null, true, false, integers and floating  *)
(* point values in the CSV source".  A field enclosed in quotes is a string (decode_csv.md, *)
(* first example: "4162722561" and "55416" in quotes are read as strings, the same digits   *)
(* without quotes as numbers; the property: "strings are told apart from other scalars ...  *)
(* by quoting").  Without inference every field is a string.                                *)
(* For an unquoted field under inference this spec decides only the literals the property   *)
(* speaks of: null, true, false and decimal integers without leading zeros (up to 9 digits, *)
(* TLC integers are 32-bit).  Every other unquoted text (floating point syntax, leading     *)
(* zeros, other spellings of the keywords, plain words) is <<"unspec">>: not compared.      *)
IsDigit(c) == c \in 48..57
RECURSIVE NatOf(_, _, _)
NatOf(d, i, acc) == IF i > Len(d) THEN acc ELSE NatOf(d, i + 1, (acc * 10) + (d[i] - 48))
IsIntLiteral(t) ==
  LET neg == Len(t) >= 1 /\ t[1] = 45
      d == IF neg THEN Tail(t) ELSE t
  IN /\ Len(d) \in 1..9
     /\ \A k \in 1..Len(d) : IsDigit(d[k])
     /\ (Len(d) > 1 => d[1] # 48)
     /\ ~(neg /\ d = <<48>>)
IntOf(t) == IF t[1] = 45 THEN 0 - NatOf(Tail(t), 1, 0) ELSE NatOf(t, 1, 0)
Infer(t) == CASE t = <<110, 117, 108, 108>> -> <<"null">>
              [] t = <<116, 114, 117, 101>> -> <<"bool", TRUE>>
              [] t = <<102, 97, 108, 115, 101>> -> <<"bool", FALSE>>
              [] IsIntLiteral(t) -> <<"int", IntOf(t)>>
              [] OTHER -> <<"unspec">>
CellOf(f, o) == IF f.q \/ ~o.infer THEN <<"str", f.t>> ELSE Infer(f.t)

(* Records -> table.  header "none": every record is a row.  "assume" and "names": the     *)
(* first record is the header line ([RFC] 2.3 "an optional header line appearing as the     *)
(* first line of the file with the same format as normal record lines"); its fields are     *)
(* names, i.e. strings, whatever infer_types says.                                          *)
TypeRows(recs, o) == [i \in 1..Len(recs) |-> [j \in 1..Len(recs[i]) |-> CellOf(recs[i][j], o)]]
ReadTable(txt, o) ==
  LET r == Records(txt, o) IN
  IF r[1] # "ok" THEN r
  ELSE IF o.header = "none" THEN <<"ok", [names |-> <<>>, rows |-> TypeRows(r[2], o)]>>
  ELSE IF Len(r[2]) = 0 THEN <<"err", "header line missing">>
  ELSE <<"ok", [names |-> [j \in 1..Len(r[2][1]) |-> r[2][1][j].t], rows |-> TypeRows(Tail(r[2]), o)]>>

\* a read-back table agrees with table t: same names, same shape, and every cell the spec
\* decides equals the cell of t
CellAgrees(c, d) == c = <<"unspec">> \/ c = d
TableAgrees(s, t) ==
  /\ s.names = t.names
  /\ Len(s.rows) = Len(t.rows)
  /\ \A i \in 1..Len(t.rows) : /\ Len(s.rows[i]) = Len(t.rows[i])
                               /\ \A j \in 1..Len(t.rows[i]) : CellAgrees(s.rows[i][j], t.rows[i][j])
\* the V-binding obligation on a recorded CSV text: the spec's reader reads it back to the table
ReadsBackTo(txt, o, t) ==
  LET r == ReadTable(txt, o) IN r = <<"unspec">> \/ (r[1] = "ok" /\ TableAgrees(r[2], t))

(***************************************************************************)
(* 3. Quoting rule and reference writer                                    *)
(***************************************************************************)
Has(s, c) == \E k \in 1..Len(s) : s[k] = c
(* [RFC] 2.6 "Fields containing line breaks (CRLF), double quotes, and commas should be    *)
(* enclosed in double-quotes"; [OPT] quote_style_kind minimal: "Only quote fields that      *)
(* contain special characters, such as a line, field or subfield delimiter, or a quote      *)
(* character"; the property: "a field containing a delimiter, a quote or a line break is    *)
(* always quoted".  Any CR or LF is a line break for the reader, whatever line_delimiter.   *)
MustQuote(s, o) == Has(s, o.fd) \/ Has(s, o.qc) \/ Has(s, CR) \/ Has(s, LF)
(* A record whose only field is empty would be an empty line, which the reader drops under *)
(* ignore_empty_lines: it has to be quoted as well to be read back.                        *)
SoleEmpty(s, ncols, o) == o.iel /\ ncols = 1 /\ s = <<>>

RECURSIVE Escaped(_, _, _)
\* 2.7 / [OPT] quote_escape_char: qc -> ec qc; the escape character itself (when it is not
\* the quote) -> ec ec (see QE)
Escaped(s, k, o) ==
  IF k > Len(s) THEN <<>>
  ELSE (IF s[k] = o.qc \/ s[k] = o.ec THEN <<o.ec, s[k]>> ELSE <<s[k]>>) \o Escaped(s, k + 1, o)
Quoted(s, o) == <<o.qc>> \o Escaped(s, 1, o) \o <<o.qc>>

RECURSIVE Digits(_)
Digits(n) == IF n < 10 THEN <<48 + n>> ELSE Append(Digits(n \div 10), 48 + (n % 10))
ScalarText(c) == CASE c[1] = "null" -> <<110, 117, 108, 108>>
                   [] c[1] = "bool" -> IF c[2] THEN <<116, 114, 117, 101>> ELSE <<102, 97, 108, 115, 101>>
                   [] c[1] = "int" -> IF c[2] < 0 THEN <<45>> \o Digits(0 - c[2]) ELSE Digits(c[2])
\* quote_style_kind: all "Quote all fields", nonnumeric "Quote all non-numeric fields",
\* none "Never quote fields".  Under all and nonnumeric the quotes are what tells a string
\* from a number, boolean or null (the property's proviso), so only strings carry them.
StringText(s, ncols, o) ==
  IF \/ o.style \in {"all", "nonnumeric"}
     \/ o.style = "minimal" /\ (MustQuote(s, o) \/ SoleEmpty(s, ncols, o))
  THEN Quoted(s, o) ELSE s
CellText(c, ncols, o) == IF IsStr(c) THEN StringText(c[2], ncols, o) ELSE ScalarText(c)

RECURSIVE Joined(_, _, _)
Joined(texts, k, sep) == IF k > Len(texts) THEN <<>>
                         ELSE (IF k > 1 THEN sep ELSE <<>>) \o texts[k] \o Joined(texts, k + 1, sep)
LineOf(cells, o) == Joined([j \in 1..Len(cells) |-> CellText(cells[j], Len(cells), o)], 1, <<o.fd>>) \o o.ld
RECURSIVE Lines(_, _, _)
Lines(rows, k, o) == IF k > Len(rows) THEN <<>> ELSE LineOf(rows[k], o) \o Lines(rows, k + 1, o)
SpecEncode(t, o) ==
  (IF o.header = "none" THEN <<>> ELSE LineOf([j \in 1..Len(t.names) |-> <<"str", t.names[j]>>], o))
  \o Lines(t.rows, 1, o)

(***************************************************************************)
(* 4. The proviso and the model-level round trip                           *)
(***************************************************************************)
\* "provided strings are told apart from other scalars either by quoting (quote styles all
\* and nonnumeric) or by switching type inference off on read" - in the second case a table
\* holds strings only, since nothing else can be read back
SideCond(t, o) == \/ o.infer /\ o.style \in {"all", "nonnumeric"}
                  \/ ~o.infer /\ AllStrings(t)
\* quote_style none ("Never quote fields") cannot carry a field that needs quotes
Writable(t, o) ==
  o.style = "none" =>
    /\ \A i \in 1..Len(t.rows) : \A j \in 1..NCols(t) :
          IsStr(t.rows[i][j]) => ~MustQuote(t.rows[i][j][2], o) /\ ~SoleEmpty(t.rows[i][j][2], NCols(t), o)
    /\ \A j \in 1..Len(t.names) : ~MustQuote(t.names[j], o) /\ ~SoleEmpty(t.names[j], NCols(t), o)
InScope(t, o) == WellFormedOptions(o) /\ WellFormedTable(t, o) /\ SideCond(t, o) /\ Writable(t, o)

\* the law TLC checks inside the model for every generated case: the proviso is sufficient
RoundTripLaw(t, o) == InScope(t, o) => ReadTable(SpecEncode(t, o), o) = <<"ok", t>>

(***************************************************************************)
(* 5. TOON (/repo/doc/ref/toon/*.md): "encode to and decode from           *)
(* toon-format".  Only the value space and the round-trip law are modelled *)
(* (DESIGN section 5, C18: the TOON syntax is not).  The value space is    *)
(* the JSON data model of JsonValue; the options that may vary are indent  *)
(* (>= 1: "Number of spaces to indent each level" - with 0 nesting cannot  *)
(* be represented), delimiter (toon_delimiter_kind comma tab pipe) and     *)
(* length_marker.                                                          *)
(***************************************************************************)
RECURSIVE IsToonValue(_)
IsToonValue(v) ==
  CASE v[1] \in {"null", "bool", "int", "str"} -> TRUE
    [] v[1] \in {"dec", "dbl"} -> TRUE                            \* <<"dec", m, e>>: the finite number m * 10^e; recorded as <<"dbl", bits>>
    [] v[1] = "arr" -> \A i \in 1..Len(v[2]) : IsToonValue(v[2][i])
    [] v[1] = "obj" -> \A k \in DOMAIN v[2] : IsToonValue(v[2][k])
    [] OTHER -> FALSE
ToonDelimiters == {"comma", "tab", "pipe"}
WellFormedToonOptions(o) == o.indent >= 1 /\ o.delimiter \in ToonDelimiters
\* decode_toon(encode_toon(v, o), o) = v, objects compared as maps
ToonRoundTrip(v, decoded) == decoded = v
=============================================================================
