----------------------------- MODULE Trace_C01 -----------------------------
(* Trace validation for C01.  One line = one recorded execution             *)
(*   out1 = dump(v, options); back = parse(out1); out2 = dump(back, options) *)
(* accepted iff                                                             *)
(*  (1) out1 is strict RFC 8259 text (JsonText machine, no relaxation used), *)
(*  (2) the value the RFC assigns to out1 is v: structure, member names and  *)
(*      string contents by code point, integers digit for digit, doubles    *)
(*      written as a real literal (so they stay doubles), big numbers       *)
(*      unquoted digit for digit,                                           *)
(*  (3) the option post-conditions hold (escape_all_non_ascii: only ASCII   *)
(*      code units; escape_solidus: every solidus is preceded by a reverse  *)
(*      solidus),                                                           *)
(*  (4) the library's re-parsed value equals v (double bit patterns         *)
(*      included) and re-serialising it reproduces out1 byte for byte.      *)
EXTENDS Naturals, Sequences, FiniteSets, Json, IOUtils, TLC
VARIABLE l
Tr == ndJsonDeserialize(IOEnv.TRACE)
JT == INSTANCE JsonText

\* decode the UTF-8 of a key / string built by JsonText is already code points; v carries code points too
RECURSIVE Match(_, _)
Match(raw, v) ==
  CASE v[1] = "null" -> raw = <<"null">>
    [] v[1] = "bool" -> raw = <<"bool", v[2]>>
    [] v[1] \in {"int", "uint", "big"} -> raw = <<"num", v[2]>>
    [] v[1] = "dbl" -> raw[1] = "num" /\ JT!NumClass(raw[2]) = "real"
    [] v[1] = "str" -> raw = <<"str", v[2]>>
    [] v[1] = "arr" -> raw[1] = "arr" /\ Len(raw[2]) = Len(v[2]) /\ \A k \in 1..Len(v[2]) : Match(raw[2][k], v[2][k])
    [] v[1] = "obj" -> /\ raw[1] = "obj" /\ Len(raw[2]) = Len(v[2])
                       /\ \A k \in 1..Len(v[2]) : \E m \in 1..Len(raw[2]) : raw[2][m][1] = v[2][k][1] /\ Match(raw[2][m][2], v[2][k][2])
\* the library's view of the re-parsed value: members may come back in key order (json) - compare as maps
RECURSIVE SameValue(_, _)
SameValue(a, b) ==
  CASE a[1] = "arr" -> b[1] = "arr" /\ Len(a[2]) = Len(b[2]) /\ \A k \in 1..Len(a[2]) : SameValue(a[2][k], b[2][k])
    [] a[1] = "obj" -> /\ b[1] = "obj" /\ Len(a[2]) = Len(b[2])
                       /\ \A k \in 1..Len(a[2]) : \E m \in 1..Len(b[2]) : b[2][m][1] = a[2][k][1] /\ SameValue(a[2][k][2], b[2][m][2])
    [] a[1] = "uint" -> b = a \/ b = <<"int", a[2]>>
    [] a[1] = "dbl" -> b = a \/ (a[2] = <<128,0,0,0,0,0,0,0>> /\ b = <<"dbl", <<0,0,0,0,0,0,0,0>>>>)     \* -0.0 may come back as 0.0 (same numeric value)
    [] OTHER -> b = a
LineOk(t) ==
  LET s == JT!RunText(t.out1) IN
  /\ t.ok
  /\ JT!AcceptAtEof(s) /\ ~s.uc /\ ~s.ut /\ ~s.dc
  /\ Match(JT!ResultAtEof(s), t.v)
  /\ (t.o[15] = 1 => \A k \in 1..Len(t.out1) : t.out1[k] < 128)
  /\ (t.o[16] = 1 => \A k \in 1..Len(t.out1) : t.out1[k] = 47 => (k > 1 /\ t.out1[k - 1] = 92))     \* every solidus is written as \/
  /\ SameValue(t.v, t.back)
  /\ t.same
Init == l = 1
Next == l <= Len(Tr) /\ LineOk(Tr[l]) /\ l' = l + 1
Accepted == TLCGet("stats").diameter - 1 = Len(Tr)
=============================================================================
