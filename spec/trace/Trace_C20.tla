----------------------------- MODULE Trace_C20 -----------------------------
(* Trace validation for C20.  A trace is one concurrent run:                  *)
(*   Seq(op, result)            the result of each operation computed         *)
(*                              single-threaded before the threads start      *)
(*   Par(thread, seq, op, result)  one completed operation of a thread        *)
(* Linearisability of read-only histories is trivial: every result must       *)
(* equal F(op, artefact), i.e. the sequential result recorded by Seq, and a   *)
(* thread's operations carry consecutive sequence numbers.  A ThreadSanitizer *)
(* report is recorded as a Race event - a write to (or unsynchronised access  *)
(* of) shared state - for which SharedReaders has no action.                  *)
EXTENDS Naturals, Sequences, Json, IOUtils, TLC
VARIABLES l, seqres, last
Tr == ndJsonDeserialize(IOEnv.TRACE)
Init == l = 1 /\ seqres = [o \in {} |-> ""] /\ last = [t \in {} |-> 0]
TReset == l <= Len(Tr) /\ Tr[l].e = "Reset" /\ seqres' = [o \in {} |-> ""] /\ last' = [t \in {} |-> 0] /\ l' = l + 1
TSeq == /\ l <= Len(Tr) /\ Tr[l].e = "Seq"
       /\ seqres' = [o \in (DOMAIN seqres) \cup {Tr[l].op} |-> IF o = Tr[l].op THEN Tr[l].result ELSE seqres[o]]
       /\ UNCHANGED last /\ l' = l + 1
TPar == /\ l <= Len(Tr) /\ Tr[l].e = "Par"
       /\ Tr[l].op \in DOMAIN seqres /\ Tr[l].result = seqres[Tr[l].op]                        \* = the sequential result
       /\ Tr[l].seq = (IF Tr[l].thread \in DOMAIN last THEN last[Tr[l].thread] ELSE 0) + 1     \* per-thread order
       /\ last' = [t \in (DOMAIN last) \cup {Tr[l].thread} |-> IF t = Tr[l].thread THEN Tr[l].seq ELSE last[t]]
       /\ UNCHANGED seqres /\ l' = l + 1
Next == TReset \/ TSeq \/ TPar
Accepted == TLCGet("stats").diameter - 1 = Len(Tr)
=============================================================================
