----------------------------- MODULE Trace_C08 -----------------------------
(* Trace validation for C08: a recorded encoder run (events pushed, output  *)
(* or error) is accepted iff the encoder reported an error, or its output   *)
(* is well-formed for its format AND denotes exactly the pushed data:       *)
(*  - binary formats: the independent reference decoder reads the output    *)
(*    completely (so every declared length equals the actual content) to    *)
(*    the value of the event sequence;                                      *)
(*  - JSON text: the RFC 8259 recogniser (JsonText, strict) accepts it and  *)
(*    the value it builds is the documented JSON image of the pushed data.  *)
EXTENDS BinModel, Json, IOUtils, TLC
VARIABLE l
Tr == ndJsonDeserialize(IOEnv.TRACE)
C == INSTANCE Cbor
JT == INSTANCE JsonText

M == INSTANCE Msgpack
U == INSTANCE Ubjson
B == INSTANCE Bson
SpecDecode(f, b) == CASE f = "cbor" -> C!Decode(b) [] f = "msgpack" -> M!Decode(b) [] f = "ubjson" -> U!Decode(b) [] f = "bson" -> B!Decode(b)
\* documented image of pushed data: UBJSON writes a byte string as an array strongly typed as uint8
RECURSIVE BImage(_, _)
BImage(f, v) ==
  CASE f = "ubjson" /\ v[1] = "bstr" -> <<"arr", [k \in 1..Len(v[2]) |-> <<"uint", IF v[2][k] = 0 THEN <<>> ELSE <<v[2][k]>>>>]>>
    [] v[1] = "arr" -> <<"arr", [k \in 1..Len(v[2]) |-> BImage(f, v[2][k])]>>
    [] v[1] = "map" -> <<"map", [k \in 1..Len(v[2]) |-> <<v[2][k][1], BImage(f, v[2][k][2])>>]>>
    [] OTHER -> v

\* JSON image of the small scalar alphabet of MC_C08 (doc/ref: byte strings as base64url, doubles shortest round-trip)
RECURSIVE JImage(_)
JImage(v) ==
  CASE v = <<"uint", <<1>>>> -> <<"num", <<49>>>>
    [] v = <<"nint", <<>>>> -> <<"num", <<45, 49>>>>
    [] v = <<"f64", <<63,248,0,0,0,0,0,0>>>> -> <<"num", <<49, 46, 53>>>>
    [] v = <<"bstr", <<1>>>> -> <<"str", <<65, 81>>>>                  \* base64url("\x01") = "AQ"
    [] v[1] = "tstr" -> <<"str", v[2]>>
    [] v[1] = "arr" -> <<"arr", [k \in 1..Len(v[2]) |-> JImage(v[2][k])]>>
    [] v[1] = "map" -> <<"obj", [k \in 1..Len(v[2]) |-> <<v[2][k][1][2], JImage(v[2][k][2])>>]>>
    [] OTHER -> v
JsonOk(t) == LET s == JT!RunText(t.bytes) IN
             /\ JT!AcceptAtEof(s) /\ ~s.uc /\ ~s.ut /\ ~s.dc
             /\ JT!ResultAtEof(s) = JImage(t.v)

\* transcoding: a value decoded from any accepted input, written as JSON text, must be valid RFC 8259 text
TranscodeOk(t) == LET s == JT!RunText(t.bytes) IN JT!AcceptAtEof(s) /\ ~s.uc /\ ~s.ut

LineOk(t) ==
  \/ t.out = "err"
  \/ (t.out = "ok" /\ t.enc = "transcode-json" /\ TranscodeOk(t))
  \/ /\ t.out = "ok"
     /\ t.enc # "transcode-json"
     /\ IF t.enc \in {"json", "jsonpretty"} THEN JsonOk(t)
        ELSE IF t.enc = "bson" /\ t.v[1] # "map" THEN TRUE        \* a BSON document is rooted in an object: anything else is a caller error
        ELSE LET r == SpecDecode(t.enc, t.bytes) IN
             r[1] = "ok" /\ r[3] = Len(t.bytes) + 1 /\ Equiv(r[2], BImage(t.enc, t.v))
Init == l = 1
Next == l <= Len(Tr) /\ LineOk(Tr[l]) /\ l' = l + 1
Accepted == TLCGet("stats").diameter - 1 = Len(Tr)
=============================================================================
