--------------------------- MODULE Trace_C08tags ---------------------------
(* Trace validation for the "tagged events" family of C08.  One line = one  *)
(* recorded run of harness/c08tags.cpp: the event sequence of value t.v     *)
(* (data model + <<"tagged", tag, base>>, <<"f16", b>>, <<"ext", tag, b>>,  *)
(* <<"ta", et, elements>>, <<"md", order, shape, data>>) was pushed into    *)
(* encoder t.enc, which answered t.out = "ok" with t.bytes, "err" (reported *)
(* an error) or "foreign" (an assertion or a foreign exception escaped).    *)
(*                                                                          *)
(* A line is accepted iff                                                   *)
(*   out = "err", or                                                        *)
(*   out = "ok" and the output is WELL-FORMED for its format - the          *)
(*     reference decoder (Cbor / Msgpack / Ubjson / Bson.tla) reads it      *)
(*     completely and meets nothing its specification forbids; JSON: the    *)
(*     strict RFC 8259 recogniser JsonText accepts it - this holds for      *)
(*     EVERY class, don't-care included - and, by class of the value:       *)
(*       "dc"  (some leaf has no documented image): nothing more            *)
(*       "out" (some leaf is outside the format's domain): never accepted - *)
(*             the encoder must have refused                                *)
(*       "cmp": leaf by leaf the output carries the documented image of     *)
(*             the pushed event (BinTags!LeafRef for tagged scalars: "in" = *)
(*             the format's counterpart, "ts" / "hpn" = the documented      *)
(*             mapped image, "plain" = the untagged value; RFC 8746 typed   *)
(*             arrays / tag 40, 1040; raw tags; for JSON text the image of  *)
(*             basic_json_options.md / basic_json_encoder.md), containers   *)
(*             with exactly the pushed items (so every declared length      *)
(*             equals the content).                                         *)
(* out = "foreign" is never accepted.                                       *)
EXTENDS BinTags, Json, IOUtils, TLC
VARIABLE l
Tr == ndJsonDeserialize(IOEnv.TRACE)
M == INSTANCE Msgpack
B == INSTANCE Bson
JT == INSTANCE JsonText

Fmt(enc) == CASE enc \in {"cbor", "cborpacked", "cborta"} -> "cbor" [] enc \in {"json", "jsonpretty"} -> "json" [] OTHER -> enc
SpecDecode(f, b) == CASE f = "cbor" -> C!Decode(b) [] f = "msgpack" -> M!Decode(b) [] f = "ubjson" -> U!Decode(b) [] f = "bson" -> B!Decode(b)
Unpack(enc, v) == IF enc = "cborpacked" THEN C!ResolveStringRefs(v) ELSE v

-----------------------------------------------------------------------------
(* Well-formedness beyond "the decoder reads it": the reference decoders    *)
(* turn three ill-formed constructs into marked values (so that C07 can     *)
(* exclude known decoder defects by name); in ENCODER output they are       *)
(* ill-formed:  UBJSON 'H' whose payload is not a number in JSON syntax     *)
(* (draft 12, high-precision), MessagePack timestamp with nanoseconds above *)
(* 999999999 (Timestamp extension type), BSON constructs marked "bad".      *)
RECURSIVE Ill(_)
Ill(r) ==
  CASE r[1] \in {"arr", "u8arr"} -> \E k \in 1..Len(r[2]) : Ill(r[2][k])
    [] r[1] = "map" -> \E k \in 1..Len(r[2]) : Ill(r[2][k][1]) \/ Ill(r[2][k][2])
    [] r[1] = "tag" -> Ill(r[3])
    [] r[1] = "loose" -> Ill(r[3])
    [] r[1] \in {"hpn_malformed", "badtype_empty", "ts", "bad", "badref"} -> TRUE
    [] OTHER -> FALSE

-----------------------------------------------------------------------------
(* Classes of the leaves that BinTags does not know.                        *)
(*  ext  byte_string_value(b, raw_tag): cbor.md "Byte string with unknown   *)
(*       CBOR tag": tag + byte string, any tag number; msgpack.md: ext      *)
(*       types 0-127 <-> byte_string (other raw tags: no type to carry      *)
(*       them, documents silent -> dc); bson.md: binary <-> byte_string,    *)
(*       the raw tag is the subtype byte - the reference decoder keeps the  *)
(*       payload only, and for subtypes with a prescribed payload structure *)
(*       (2 old binary, 3 / 4 UUID, 5 MD5) or unassigned ones (10..127) the *)
(*       caller owns the structure -> dc; above 255 -> dc; ubjson.md: no    *)
(*       byte string type, array of uint8.                                  *)
(*  ta   typed_array: an array of the element values; BSON has no unsigned  *)
(*       64-bit integers -> "out" for u64 elements above INT64_MAX.         *)
(*  md   begin_multi_dim: cbor/typed_arrays.md + RFC 8746 3.1 (tag 40 row   *)
(*       major, 1040 column major, [dimensions, storage]); the other        *)
(*       formats' pages do not say what a multi-dimensional array becomes   *)
(*       -> dc (well-formedness only).                                      *)
ExtNum(tb) == C!Num(tb)                                     \* saturates at Huge
ExtClass(f, enc, tb) ==
  CASE f = "cbor" -> IF enc = "cborpacked" /\ ExtNum(tb) \in {25, 256} THEN "dc" ELSE "cmp"      \* with pack_strings these two tag numbers ARE the stringref protocol
    [] f = "msgpack" -> IF ExtNum(tb) <= 127 THEN "cmp" ELSE "dc"
    [] f = "bson" -> LET n == ExtNum(tb) IN IF n > 255 \/ n \in {2, 3, 4, 5} \/ (n >= 10 /\ n <= 127) THEN "dc" ELSE "cmp"
    [] OTHER -> "cmp"
BaseClass(f, tag, base) == LET cl == Class(f, tag, base) IN IF cl \in {"dc", "out"} THEN cl ELSE "cmp"      \* in / ts / hpn / plain: compared by BinTags!LeafRef
RECURSIVE LeafClasses(_, _, _)
LeafClasses(f, enc, v) ==     \* the set of classes of the leaves of v
  CASE v[1] = "arr" -> UNION { LeafClasses(f, enc, v[2][k]) : k \in 1..Len(v[2]) }
    [] v[1] = "map" -> UNION { LeafClasses(f, enc, v[2][k][2]) : k \in 1..Len(v[2]) }
    [] v[1] = "tagged" -> {BaseClass(f, v[2], v[3])}
    [] v[1] = "ext" -> {ExtClass(f, enc, v[2])}
    [] v[1] = "ta" -> IF f = "bson" /\ \E k \in 1..Len(v[3]) : v[2] = "u64" /\ v[3][k][1] >= 128 THEN {"out"} ELSE {"cmp"}
    [] v[1] = "md" -> IF f = "cbor" /\ v[4][1] \in {"ta", "arr"} THEN LeafClasses(f, enc, v[4]) ELSE {"dc"}      \* storage that is not an array: outside RFC 8746 3.1
    [] OTHER -> {BaseClass(f, "none", v)}
BinClass(f, enc, v) == LET s == LeafClasses(f, enc, v) IN IF "dc" \in s THEN "dc" ELSE IF "out" \in s THEN "out" ELSE "cmp"

-----------------------------------------------------------------------------
(* The reference reading r of the output against the pushed value v.        *)
SmallUint(n) == <<"uint", IF n = 0 THEN <<>> ELSE <<n>>>>
ExtRef(f, tb, b, r) ==
  CASE f = "cbor" -> r[1] = "tag" /\ r[2] = tb /\ r[3] = <<"bstr", b>>
    [] f = "msgpack" -> Len(r) = 4 /\ r[1] = "bstr" /\ r[2] = b /\ r[3] = "ext" /\ r[4] = ExtNum(tb)
    [] f = "bson" -> r = <<"bstr", b>>
    [] OTHER -> r[1] \in {"u8arr", "arr"} /\ Equiv(r, U8Image(b))
RECURSIVE RefWalk(_, _, _, _)
RefWalk(f, enc, v, r) ==
  CASE v[1] = "arr" -> /\ r[1] \in {"arr", "u8arr"} /\ Len(r[2]) = Len(v[2])
                       /\ \A k \in 1..Len(v[2]) : RefWalk(f, enc, v[2][k], r[2][k])
    [] v[1] = "map" -> /\ r[1] = "map" /\ Len(r[2]) = Len(v[2])
                       /\ \A k \in 1..Len(v[2]) : \E i \in 1..Len(r[2]) : r[2][i][1] = v[2][k][1] /\ RefWalk(f, enc, v[2][k][2], r[2][i][2])
    [] v[1] = "tagged" -> LeafRef(f, v[2], v[3], r)
    [] v[1] = "ext" -> ExtRef(f, v[2], v[3], r)
    [] v[1] = "ta" ->
         IF f = "cbor" /\ r[1] = "tag"
         THEN enc = "cborta" /\ IsTypedArrayOf(v[2], v[3], r)              \* cbor.md: typed array tags only with use_typed_arrays(true); RFC 8746 2
         ELSE RefWalk(f, enc, TAValue(v[2], v[3]), r)
    [] v[1] = "md" ->                                                       \* (cbor only) RFC 8746 3.1
         /\ r[1] = "tag" /\ TagNum(r) = (IF v[2] = "col" THEN 1040 ELSE 40)
         /\ r[3][1] = "arr" /\ Len(r[3][2]) = 2
         /\ r[3][2][1] = <<"arr", [k \in 1..Len(v[3]) |-> SmallUint(v[3][k])]>>
         /\ RefWalk(f, enc, v[4], r[3][2][2])
    [] OTHER -> LeafRef(f, "none", v, r)

(* BSON raw tags: the reference decoder keeps the payload of a binary only.  *)
(* bson.md (example "Document with string and binary"): the raw tag is the  *)
(* subtype byte, and byte_string_value(b) without one gets a "user defined" *)
(* subtype (bsonspec: 0x80..0xFF).  For the document {"a": <byte string>}   *)
(* the subtype is the 12th byte: int32 size, x05, "a" x00, int32 length.    *)
BsonSubtypeOk(t) ==
  IF t.v[1] = "map" /\ Len(t.v[2]) = 1 /\ t.v[2][1][1] = <<"tstr", <<97>>>>
  THEN LET x == t.v[2][1][2] IN
       CASE x[1] = "ext" -> t.bytes[12] = ExtNum(x[2])
         [] x[1] = "bstr" \/ (x[1] = "tagged" /\ x[3][1] = "bstr") -> t.bytes[12] >= 128
         [] OTHER -> TRUE
  ELSE TRUE

BinOk(t, f) ==
  IF f = "bson" /\ t.v[1] # "map" THEN TRUE                                 \* a BSON document is rooted in an object: anything else is a caller error (as in Trace_C08)
  ELSE LET r == SpecDecode(f, t.bytes)  cls == BinClass(f, t.enc, t.v) IN
       /\ r[1] = "ok" /\ r[3] = Len(t.bytes) + 1 /\ ~Ill(r[2])              \* well-formed, nothing missing, nothing extra
       /\ cls # "out"
       /\ cls = "cmp" => (RefWalk(f, t.enc, t.v, Unpack(t.enc, r[2])) /\ (f = "bson" => BsonSubtypeOk(t)))

-----------------------------------------------------------------------------
(* JSON text.  Image of a pushed event (basic_json_options.md: bignum_format *)
(* default raw = the digits as a number; byte_string_format default          *)
(* base64url, "overrides" the hint, so without the option the hint decides   *)
(* (byte_string_chars_format.md: base16 / base64 / base64url); NaN and the   *)
(* infinities have no replacement enabled and are written as null; the       *)
(* default float format is the shortest representation that reads back to    *)
(* the same double):                                                         *)
(*   string + bigint / bigdec in JSON number syntax -> that number           *)
(*   string + bigint / bigdec otherwise -> dc (the tag promises a number;    *)
(*        no page says what happens to a broken promise) - the output must   *)
(*        still be JSON                                                      *)
(*   string + any other tag -> the string                                    *)
(*   byte string -> string in base16 (hint base16; hex digit case free),     *)
(*        base64 (hint base64), base64url (otherwise, raw tags included;     *)
(*        cbor.md A4); trailing '=' padding free                             *)
(*   integer + any tag -> the number;  double / half + any tag -> the        *)
(*        number, null for NaN / infinities;  typed array -> array of these  *)
(*   multi_dim -> dc (no page).                                              *)
JsonRun(b) == JT!RunText(b)
JsonWf(s) == JT!AcceptAtEof(s) /\ ~s.uc /\ ~s.ut /\ ~s.dc
IsNumText(tag, base) == tag \in {"bigint", "bigdec"} /\ base[1] = "tstr"
RECURSIVE JDc(_)
JDc(v) == CASE v[1] = "arr" -> \E k \in 1..Len(v[2]) : JDc(v[2][k])
            [] v[1] = "map" -> \E k \in 1..Len(v[2]) : JDc(v[2][k][2])
            [] v[1] = "tagged" -> IsNumText(v[2], v[3]) /\ ~U!JsonNumber(v[3][2])
            [] v[1] = "md" -> TRUE
            [] OTHER -> FALSE

\* base64 (RFC 4648 4 / 5) without padding
B64Char(k, url) == IF k < 26 THEN 65 + k ELSE IF k < 52 THEN 71 + k ELSE IF k < 62 THEN k - 4 ELSE IF k = 62 THEN (IF url THEN 45 ELSE 43) ELSE (IF url THEN 95 ELSE 47)
RECURSIVE B64(_, _, _, _)
B64(b, i, url, acc) ==
  LET n == Len(b) - i + 1 IN
  IF n <= 0 THEN acc
  ELSE IF n = 1 THEN acc \o <<B64Char(b[i] \div 4, url), B64Char((b[i] % 4) * 16, url)>>
  ELSE IF n = 2 THEN acc \o <<B64Char(b[i] \div 4, url), B64Char(((b[i] % 4) * 16) + (b[i + 1] \div 16), url), B64Char((b[i + 1] % 16) * 4, url)>>
  ELSE B64(b, i + 3, url, acc \o <<B64Char(b[i] \div 4, url), B64Char(((b[i] % 4) * 16) + (b[i + 1] \div 16), url),
                                    B64Char(((b[i + 1] % 16) * 4) + (b[i + 2] \div 64), url), B64Char(b[i + 2] % 64, url)>>)
Unpadded(s) == SubSeq(s, 1, Len(s) - TrailPad(s, Len(s)))
IsBase16Of(s, b) == Len(s) = 2 * Len(b) /\ \A k \in 1..Len(b) : HexVal(s[(2 * k) - 1]) = b[k] \div 16 /\ HexVal(s[2 * k]) = b[k] % 16
BytesText(tag, b, s) == CASE tag = "base16" -> IsBase16Of(s, b)
                          [] tag = "base64" -> Unpadded(s) = B64(b, 1, FALSE, <<>>)
                          [] OTHER -> Unpadded(s) = B64(b, 1, TRUE, <<>>)

(* The exact decimal value of a double m x 2^e as a canonical decimal        *)
(* (BinTags!Canon10), when it has at most 15 significant digits: any         *)
(* shortest-round-trip writer prints such a double with exactly that value   *)
(* (two different decimals of at most 15 digits never read back to the same  *)
(* double).  Longer expansions (1e300, 2^-24), subnormals: <<"long">> - only *)
(* "a number" is required.                                                   *)
RECURSIVE Odd(_, _)
Odd(nat, tz) == IF nat[1] % 2 = 0 THEN Odd(N!DivSmall(nat, 2)[1], tz + 1) ELSE <<nat, tz>>      \* the limb base 10^4 is even
ExactDec(b) ==
  LET neg == b[1] >= 128
      e11 == ((b[1] % 128) * 16) + (b[2] \div 16)
      frac == N!FromBase(<<b[2] % 16, b[3], b[4], b[5], b[6], b[7], b[8]>>, 256)
  IN IF e11 = 0 THEN (IF frac = <<>> THEN <<"zero">> ELSE <<"long">>)
     ELSE LET o == Odd(N!Add(N!Pow2(52), frac), 0)
              e == (e11 - 1075) + o[2]
          IN IF e >= 0 THEN (IF e > 64 THEN <<"long">> ELSE Canon10(neg, N!ToDec(N!Mul(o[1], N!Pow2(e))), SZero))
             ELSE IF 0 - e > 40 THEN <<"long">>
             ELSE Canon10(neg, N!ToDec(N!Mul(o[1], N!PowSmall(5, 0 - e))), SInt(TRUE, N!FromSmall(0 - e)))
Widen(x) == Canon(x)                                                          \* BinModel: f16 / f32 -> the f64 of the same value, any NaN -> one NaN
IsFinite(b) == ~(b[1] % 128 = 127 /\ b[2] >= 240)
FloatText(x, j) ==
  LET d == Widen(x)[2] IN
  IF ~IsFinite(d) THEN j = <<"null">>
  ELSE /\ j[1] = "num"
       /\ LET e == ExactDec(d) IN IF e = <<"long">> \/ (e[1] = "num" /\ Len(e[3]) > 15) THEN TRUE ELSE DecCanon(j[2]) = e
IntText(x, j) == j[1] = "num" /\ DecCanon(j[2]) = Canon10(x[1] = "nint", N!ToDec(IntOf(x)[2]), SZero)
JLeaf(tag, base, j) ==
  CASE base[1] = "tstr" -> IF IsNumText(tag, base) THEN j[1] = "num" /\ DecCanon(j[2]) = DecCanon(base[2]) ELSE j = <<"str", base[2]>>
    [] base[1] = "bstr" -> j[1] = "str" /\ BytesText(tag, base[2], j[2])
    [] base[1] \in {"uint", "nint"} -> IntText(base, j)
    [] base[1] \in {"f64", "f32", "f16"} -> FloatText(base, j)
    [] OTHER -> j = base                                                      \* null, bool
RECURSIVE JMatch(_, _)
JMatch(v, j) ==
  CASE v[1] = "arr" -> j[1] = "arr" /\ Len(j[2]) = Len(v[2]) /\ \A k \in 1..Len(v[2]) : JMatch(v[2][k], j[2][k])
    [] v[1] = "map" -> j[1] = "obj" /\ Len(j[2]) = Len(v[2]) /\ \A k \in 1..Len(v[2]) : j[2][k][1] = v[2][k][1][2] /\ JMatch(v[2][k][2], j[2][k][2])
    [] v[1] = "tagged" -> JLeaf(v[2], v[3], j)
    [] v[1] = "ext" -> j[1] = "str" /\ BytesText("none", v[3], j[2])
    [] v[1] = "ta" -> j[1] = "arr" /\ Len(j[2]) = Len(v[3]) /\ \A k \in 1..Len(v[3]) : JLeaf("none", ElemVal(v[2], v[3][k]), j[2][k])
    [] OTHER -> JLeaf("none", v, j)
JsonOk(t) == LET s == JsonRun(t.bytes) IN JsonWf(s) /\ (JDc(t.v) \/ JMatch(t.v, JT!ResultAtEof(s)))

-----------------------------------------------------------------------------
LineOk(t) ==
  \/ t.out = "err"
  \/ /\ t.out = "ok"
     /\ LET f == Fmt(t.enc) IN IF f = "json" THEN JsonOk(t) ELSE BinOk(t, f)

Init == l = 1
\* strict (Trace_C08tags.cfg, used by --replay): stops at the first refused line
Next == l <= Len(Tr) /\ LineOk(Tr[l]) /\ l' = l + 1
Accepted == TLCGet("stats").diameter - 1 = Len(Tr)
\* report-all (Trace_C08tags_all.cfg, used by the run): every refused line is printed, validation continues
NextAll == l <= Len(Tr) /\ l' = l + 1 /\ (LineOk(Tr[l]) \/ PrintT(ToJson([rej |-> l])))
=============================================================================
