----------------------------- MODULE Trace_C19 -----------------------------
(* Trace validation for C19: the recorded allocation events of one forked    *)
(* execution per (scenario, failing allocation index) replayed through the   *)
(* AllocLedger actions; executions are concatenated with Reset events.       *)
EXTENDS AllocLedger, Json, IOUtils, TLC
VARIABLE l
Tr == ndJsonDeserialize(IOEnv.TRACE)
IsEv(e) == l <= Len(Tr) /\ Tr[l].e = e /\ l' = l + 1
Init == l = 1 /\ live = Empty /\ inop = FALSE /\ failed = FALSE /\ ended = "none"
Next == \/ IsEv("Reset") /\ Reset
        \/ IsEv("Alloc") /\ Alloc(Tr[l].id, Tr[l].size, Tr[l].al)
        \/ IsEv("Free") /\ Free(Tr[l].id, Tr[l].size, Tr[l].al)
        \/ IsEv("Begin") /\ OpBegin
        \/ IsEv("Fail") /\ InjectFailure
        \/ IsEv("End") /\ OpEnd(Tr[l].out)
        \/ IsEv("Probe") /\ Probe(Tr[l].usable, Tr[l].same, Tr[l].strong)
        \/ IsEv("Destroyed") /\ Destroyed
Accepted == TLCGet("stats").diameter - 1 = Len(Tr)
=============================================================================
