----------------------------- MODULE Trace_C04 -----------------------------
(* Trace validation for C04: results recorded from the real arbitrary-        *)
(* precision integer, the JSON number parser and the double printer are       *)
(* checked against true integer arithmetic (BigNat), the RFC 8259 number      *)
(* grammar / native-range classification (JsonText, JsonGrammar) and exact    *)
(* round-half-even rounding of integers to binary64.                          *)
EXTENDS BigNat, Json, IOUtils, TLC
VARIABLE l
Tr == ndJsonDeserialize(IOEnv.TRACE)
JT == INSTANCE JsonText
JG == INSTANCE JsonGrammar

\* signed numbers <<sign (1 = negative), magnitude>>; zero is <<0, <<>>>>
S(sd) == LET m == FromDec(sd[2]) IN <<IF m = <<>> THEN 0 ELSE sd[1], m>>
Neg(x) == IF x[2] = <<>> THEN x ELSE <<1 - x[1], x[2]>>
SAdd(x, y) == IF x[1] = y[1] THEN <<x[1], Add(x[2], y[2])>>
              ELSE IF Cmp(x[2], y[2]) = 1 THEN <<0, <<>>>>
              ELSE IF Cmp(x[2], y[2]) = 2 THEN <<x[1], Sub(x[2], y[2])>> ELSE <<y[1], Sub(y[2], x[2])>>
SMul(x, y) == LET m == Mul(x[2], y[2]) IN <<IF m = <<>> THEN 0 ELSE (x[1] + y[1]) % 2, m>>
SCmp(x, y) == IF x[1] # y[1] THEN (IF x[1] = 1 THEN 0 ELSE 2)                  \* 0 less, 1 equal, 2 greater
              ELSE IF x[1] = 0 THEN Cmp(x[2], y[2]) ELSE Cmp(y[2], x[2])

ArithOk(t) ==
  LET a == S(t.a)  b == S(t.b) IN
  CASE t.skip -> TRUE
    [] t.op = "add" -> S(t.r) = SAdd(a, b)
    [] t.op = "sub" -> S(t.r) = SAdd(a, Neg(b))
    [] t.op = "mul" -> S(t.r) = SMul(a, b)
    [] t.op \in {"div", "mod"} ->                       \* truncating division: a = q*b + m, |m| < |b|, m = 0 or sign(m) = sign(a)
         LET q == S(t.r)  m == S(t.m) IN
         /\ SAdd(SMul(q, b), m) = a
         /\ Lt(m[2], b[2])
         /\ (m[2] = <<>> \/ m[1] = a[1])
    [] t.op = "cmp" -> /\ t.cmp = SCmp(a, b) /\ t.lt = (SCmp(a, b) = 0) /\ t.eq = (SCmp(a, b) = 1) /\ t.le = (SCmp(a, b) # 2)
    [] t.op = "shl" -> S(t.r) = <<a[1], Mul(a[2], Pow2(t.sh))>>
    [] t.op = "shr" ->                                  \* non-negative a: floor(a / 2^k)
         LET q == S(t.r)  p == Mul(q[2], Pow2(t.sh)) IN q[1] = 0 /\ Le(p, a[2]) /\ Lt(Sub(a[2], p), Pow2(t.sh))

HexVal(cu) == IF cu >= 48 /\ cu <= 57 THEN cu - 48 ELSE IF cu >= 97 /\ cu <= 102 THEN cu - 87 ELSE IF cu >= 65 /\ cu <= 70 THEN cu - 55 ELSE 99
ConvOk(t) ==
  LET a == S(t.a)  neg == a[1] = 1
      hexmag == IF neg /\ Len(t.hex) > 0 /\ t.hex[1] = 45 THEN Tail(t.hex) ELSE t.hex IN
  /\ t.dec = (IF neg THEN <<45>> ELSE <<>>) \o ToDec(a[2])                       \* exact decimal digits
  /\ \A k \in 1..Len(hexmag) : HexVal(hexmag[k]) < 16
  /\ FromBase([k \in 1..Len(hexmag) |-> HexVal(hexmag[k])], 16) = a[2]
  /\ (neg <=> (Len(t.hex) > 0 /\ t.hex[1] = 45))
  /\ FromBase(t.bytes, 256) = a[2]
  /\ t.signum = (IF a[2] = <<>> THEN 1 ELSE IF neg THEN 0 ELSE 2)
  /\ t.bytes_back /\ t.hex_back /\ t.dec_back

\* integer literal: class by native range, value digit for digit (the sign of a zero is not a numeric difference)
LitOk(t) ==
  LET cls == JT!NumClass(t.text)
      mag == IF t.text[1] = 45 THEN Tail(t.text) ELSE t.text
      canon == IF FromDec(mag) = <<>> THEN <<48>> ELSE t.text IN
  /\ t.cls = cls
  /\ t.digits = canon
  /\ t.nolossless_is_number

\* correctly rounded binary64 of a positive integer N >= 2^52 (round half to even), as 8 big-endian bytes
RECURSIVE Halve(_, _)
Halve(a, k) == IF k = 0 THEN a ELSE Halve(DivSmall(a, 2)[1], k - 1)
RoundBits(n) ==
  IF BitLen(n) < 53 THEN                                \* exactly representable: no rounding
    LET bl == BitLen(n)  mant == Mul(n, Pow2(53 - bl))  ex == 1022 + bl
        frac == Sub(mant, Pow2(52))  fb == ToBytes(frac)  pad == Zeros(7 - Len(fb)) \o fb IN
    << ex \div 16, ((ex % 16) * 16) + pad[1] >> \o SubSeq(pad, 2, 7)
  ELSE
  LET bl == BitLen(n)  e == bl - 53                     \* n = q * 2^e + r, q has 53 bits
      q == Halve(n, e)  r == Sub(n, Mul(q, Pow2(e)))
      half == IF e = 0 THEN <<>> ELSE Pow2(e - 1)
      up == e > 0 /\ (Cmp(r, half) = 2 \/ (Cmp(r, half) = 1 /\ DivSmall(q, 2)[2] = 1))
      q1 == IF up THEN Add(q, <<1>>) ELSE q
      carry == BitLen(q1) = 54                          \* rounding up overflowed into the next binade
      mant == IF carry THEN Pow2(52) ELSE q1
      ex == 1023 + 52 + e + (IF carry THEN 1 ELSE 0)
      frac == Sub(mant, Pow2(52))
      fb == ToBytes(frac)  pad == Zeros(7 - Len(fb)) \o fb IN     \* 52-bit fraction as 7 bytes (top nibble zero)
  << ex \div 16, ((ex % 16) * 16) + pad[1] >> \o SubSeq(pad, 2, 7)
RoundOk(t) == LET want == RoundBits(FromDec(t.n)) IN \A k \in 1..Len(t.forms) : t.forms[k][2] = want

\* double -> text -> double
IsDig(cu) == cu >= 48 /\ cu <= 57
\* significant digits of the mantissa part (up to e/E): from the first to the last non-zero digit
RECURSIVE MantDigits(_, _, _)
MantDigits(s, i, acc) == IF i > Len(s) \/ s[i] \in {101, 69} THEN acc ELSE MantDigits(s, i + 1, IF IsDig(s[i]) THEN Append(acc, s[i]) ELSE acc)
SigCount(ds) == LET nz == {k \in 1..Len(ds) : ds[k] # 48} IN
                IF nz = {} THEN 0 ELSE (CHOOSE k \in nz : \A m \in nz : m <= k) - (CHOOSE k \in nz : \A m \in nz : k <= m) + 1
DblOk(t) ==
  /\ JG!Number(t.out, 1) = Len(t.out) + 1                                        \* a JSON number, nothing else
  /\ JT!NumClass(t.out) = "real"                                                 \* stays a floating-point value
  /\ SigCount(MantDigits(t.out, 1, <<>>)) <= 17
  /\ t.isdbl
  /\ (t.back = t.bits \/ (t.bits = <<128,0,0,0,0,0,0,0>> /\ t.back = <<0,0,0,0,0,0,0,0>>))

LineOk(t) == CASE t.e = "arith" -> ArithOk(t) [] t.e = "conv" -> ConvOk(t) [] t.e = "lit" -> LitOk(t) [] t.e = "round" -> RoundOk(t) [] t.e = "dbl" -> DblOk(t)
Init == l = 1
Next == l <= Len(Tr) /\ LineOk(Tr[l]) /\ l' = l + 1
Accepted == TLCGet("stats").diameter - 1 = Len(Tr)
=============================================================================
