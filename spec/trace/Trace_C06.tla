----------------------------- MODULE Trace_C06 -----------------------------
(* Trace validation for C06 (binary round trip).  One trace line = one      *)
(* recorded execution: value v encoded by the real encoder of format f to   *)
(* `bytes` (or refused: enc = "err"), and the real decoder's reading `dec`  *)
(* of those bytes.  The line is accepted iff                                *)
(*   - the encoder refused and v is outside the format's domain, or         *)
(*   - the SPEC's reference decoder reads `bytes` completely to the         *)
(*     documented image of v (so every length / width / back-patched size   *)
(*     in the output is right), and the library's own decode of the bytes   *)
(*     equals that image too.                                               *)
EXTENDS BinModel, Json, IOUtils, TLC
VARIABLE l
Tr == ndJsonDeserialize(IOEnv.TRACE)
C == INSTANCE Cbor
M == INSTANCE Msgpack
U == INSTANCE Ubjson
B == INSTANCE Bson

IsBigUint(v) == v[1] = "uint" /\ Len(v[2]) = 8 /\ v[2][1] >= 128           \* above INT64_MAX
RECURSIVE HasBigUint(_)
HasBigUint(v) == CASE v[1] = "uint" -> IsBigUint(v)
                   [] v[1] = "arr" -> \E k \in 1..Len(v[2]) : HasBigUint(v[2][k])
                   [] v[1] = "map" -> \E k \in 1..Len(v[2]) : HasBigUint(v[2][k][2])
                   [] OTHER -> FALSE
\* The format's domain (doc/ref/<format>/*.md).  CBOR and MessagePack represent every value of the universe.
\* UBJSON has no unsigned 64-bit type (values above INT64_MAX are mapped to high-precision numbers: "mapped").
\* A BSON document is rooted in an object and has no unsigned 64-bit type at all.
Domain(f, v) == CASE f = "cbor" -> "in" [] f = "msgpack" -> "in"
                  [] f = "ubjson" -> IF HasBigUint(v) THEN "mapped" ELSE "in"
                  [] f = "bson" -> IF v[1] # "map" THEN "dont-care" ELSE IF HasBigUint(v) THEN "out" ELSE "in"
\* documented image: UBJSON writes a byte string as an array strongly typed as uint8
RECURSIVE Image(_, _)
Image(f, v) ==
  CASE f = "ubjson" /\ v[1] = "bstr" -> <<"arr", [k \in 1..Len(v[2]) |-> <<"uint", IF v[2][k] = 0 THEN <<>> ELSE <<v[2][k]>>>>]>>
    [] v[1] = "arr" -> <<"arr", [k \in 1..Len(v[2]) |-> Image(f, v[2][k])]>>
    [] v[1] = "map" -> <<"map", [k \in 1..Len(v[2]) |-> <<v[2][k][1], Image(f, v[2][k][2])>>]>>
    [] OTHER -> v
SpecDecode(f, b) == CASE f = "cbor" -> C!Decode(b) [] f = "msgpack" -> M!Decode(b) [] f = "ubjson" -> U!Decode(b) [] f = "bson" -> B!Decode(b)
\* CBOR string packing (tags 256 / 25): resolve references before comparing
Unpack(f, route, v) == IF f = "cbor" /\ route = "packed" THEN C!ResolveStringRefs(v) ELSE v

LineOk(t) ==
  LET dom == Domain(t.f, t.v) IN
  IF dom = "dont-care" THEN TRUE
  ELSE IF t.enc = "err" THEN dom = "out"                          \* refusing is allowed only outside the domain
  ELSE IF dom = "out" THEN FALSE                                  \* ... and required there (never truncated / wrapped / missing data)
  ELSE IF dom = "mapped" THEN                                     \* UBJSON big unsigned: a top-level value is checked digit for digit
       LET r == SpecDecode(t.f, t.bytes) IN
       /\ r[1] = "ok" /\ r[3] = Len(t.bytes) + 1 /\ t.dec_ok
       /\ (IsBigUint(t.v) => (r[2] = <<"hpn", t.decimal>> /\ t.dec[1] = "numstr" /\ t.dec[3] = t.decimal))
  ELSE LET r == SpecDecode(t.f, t.bytes) IN
       /\ r[1] = "ok"
       /\ r[3] = Len(t.bytes) + 1                               \* nothing missing, nothing extra
       /\ Equiv(Unpack(t.f, t.route, r[2]), Image(t.f, t.v))     \* the output denotes the value
       /\ t.dec_ok /\ Equiv(t.dec, Image(t.f, t.v))              \* and the library reads it back
Init == l = 1
Next == l <= Len(Tr) /\ LineOk(Tr[l]) /\ l' = l + 1
Accepted == TLCGet("stats").diameter - 1 = Len(Tr)
=============================================================================
