----------------------------- MODULE Trace_C06 -----------------------------
(* Trace validation for C06 (binary round trip).  One trace line = one      *)
(* recorded execution: value v encoded by the real encoder of format f to   *)
(* `bytes` (or refused: enc = "err"), and the real decoder's reading `dec`  *)
(* of those bytes.  The line is accepted iff                                *)
(*   - the encoder refused and v is outside the format's domain, or         *)
(*   - the SPEC's reference decoder reads `bytes` completely to the         *)
(*     documented image of v (so every length / width / back-patched size   *)
(*     in the output is right), and the library's own decode of the bytes   *)
(*     equals that image too.                                               *)
EXTENDS BinModel, Json, IOUtils, TLC
VARIABLE l
Tr == ndJsonDeserialize(IOEnv.TRACE)
C == INSTANCE Cbor

\* documented image of a data-model value in format f, and the format's domain
InDomain(f, v) == CASE f = "cbor" -> TRUE
Image(f, v) == v
SpecDecode(f, b) == CASE f = "cbor" -> C!Decode(b)
\* CBOR string packing (tags 256 / 25): resolve references before comparing
Unpack(f, route, v) == IF f = "cbor" /\ route = "packed" THEN C!ResolveStringRefs(v) ELSE v

LineOk(t) ==
  IF t.enc = "err" THEN ~InDomain(t.f, t.v)
  ELSE LET r == SpecDecode(t.f, t.bytes) IN
       /\ r[1] = "ok"
       /\ r[3] = Len(t.bytes) + 1                               \* nothing missing, nothing extra
       /\ Equiv(Unpack(t.f, t.route, r[2]), Image(t.f, t.v))     \* the output denotes the value
       /\ t.dec_ok /\ Equiv(t.dec, Image(t.f, t.v))              \* and the library reads it back
Init == l = 1
Next == l <= Len(Tr) /\ LineOk(Tr[l]) /\ l' = l + 1
Accepted == TLCGet("stats").diameter - 1 = Len(Tr)
=============================================================================
