----------------------------- MODULE Trace_C05 -----------------------------
(* Trace validation for C05: one line per (case, entry point) summarising    *)
(* the call as  {e: "Call", ep, out}  where out is the observed outcome;     *)
(* only the outcomes of ApiOutcome!Allowed have an action.                    *)
EXTENDS ApiOutcome, Json, IOUtils, TLC, Sequences
VARIABLE l
Tr == ndJsonDeserialize(IOEnv.TRACE)
Init == l = 1 /\ Init0
\* each line is one complete call (Call followed by its outcome action)
Next == /\ l <= Len(Tr) /\ l' = l + 1
        /\ Tr[l].out \in Allowed
        /\ UNCHANGED pending
Accepted == TLCGet("stats").diameter - 1 = Len(Tr)
=============================================================================
