----------------------------- MODULE Trace_C18 -----------------------------
(* Trace validation for C18.  One trace line = one recorded execution of    *)
(* the real library:                                                        *)
(*   k = "csv":  table (names, rows) encoded by csv::encode_csv under the   *)
(*               options o to `text`, and `dec`, the value the library's    *)
(*               csv::decode_csv read back from text under the same options.*)
(*     The line is accepted iff                                             *)
(*       - the case is in the property's scope (Csv!InScope),               *)
(*       - the SPEC's reader (Csv!ReadTable, written from RFC 4180 and the  *)
(*         csv options reference) reads text back to the table - so every   *)
(*         field that needs quotes is quoted, every quote is escaped, the   *)
(*         header line and the line breaks are where the mapping puts       *)
(*         them -, and                                                      *)
(*       - the library's own reading equals the JSON value of the table     *)
(*         (objects compared as maps).                                      *)
(*   k = "toon": value v, encode_toon, decode_toon -> dec; accepted iff v   *)
(*               is in the TOON value space and dec = v.                    *)
EXTENDS Csv, Json, IOUtils, TLC
VARIABLE l
Tr == ndJsonDeserialize(IOEnv.TRACE)

\* wire form (objects as <<key, value>> pair lists) -> JsonValue
RECURSIVE FromWire(_)
FromWire(w) == CASE w[1] = "arr" -> JArr([i \in 1..Len(w[2]) |-> FromWire(w[2][i])])
               [] w[1] = "obj" -> JObj([k \in {w[2][i][1] : i \in 1..Len(w[2])} |->
                                         FromWire(w[2][CHOOSE i \in 1..Len(w[2]) : w[2][i][1] = k][2])])
               [] OTHER -> w

CsvOk(x) ==
  LET t == [names |-> x.names, rows |-> x.rows] IN
  /\ InScope(t, x.o)
  /\ x.enc
  /\ ReadsBackTo(x.text, x.o, t)
  /\ FromWire(x.dec) = Shape(t, x.o)
ToonOk(x) ==
  LET v == FromWire(x.v) IN
  /\ WellFormedToonOptions(x.o) /\ IsToonValue(v)
  /\ x.enc
  /\ ToonRoundTrip(v, FromWire(x.dec))
LineOk(x) == IF x.k = "csv" THEN CsvOk(x) ELSE ToonOk(x)

Init == l = 1
Next == l <= Len(Tr) /\ LineOk(Tr[l]) /\ l' = l + 1
Accepted == TLCGet("stats").diameter - 1 = Len(Tr)
=============================================================================
