----------------------------- MODULE Trace_C15 -----------------------------
(* Trace validation for the diff law of C15: each trace line records one    *)
(* execution  d = jsonpatch::from_diff(a, b)  of the real library (d is the *)
(* patch document it produced).  The line is accepted iff the SPEC's        *)
(* RFC 6902 Apply, applied to a with the recorded patch, yields b.          *)
EXTENDS JsonPatch, Json, IOUtils, TLC
VARIABLE l
Tr == ndJsonDeserialize(IOEnv.TRACE)

RECURSIVE FromWire(_)
FromWire(w) == CASE w[1] = "arr" -> JArr([i \in 1..Len(w[2]) |-> FromWire(w[2][i])])
               [] w[1] = "obj" -> JObj([k \in {w[2][i][1] : i \in 1..Len(w[2])} |->
                                         FromWire(w[2][CHOOSE i \in 1..Len(w[2]) : w[2][i][1] = k][2])])
               [] OTHER -> w

\* member lookup in a wire object (sequence of <<key, value>> pairs)
HasM(w, k) == \E i \in 1..Len(w[2]) : w[2][i][1] = k
M(w, k) == w[2][CHOOSE i \in 1..Len(w[2]) : w[2][i][1] = k][2]
KOp == <<111,112>>  KPath == <<112,97,116,104>>  KFrom == <<102,114,111,109>>  KValue == <<118,97,108,117,101>>
OpNameOf(cps) == CASE cps = <<97,100,100>> -> "add" [] cps = <<114,101,109,111,118,101>> -> "remove"
                   [] cps = <<114,101,112,108,97,99,101>> -> "replace" [] cps = <<109,111,118,101>> -> "move"
                   [] cps = <<99,111,112,121>> -> "copy" [] cps = <<116,101,115,116>> -> "test" [] OTHER -> "bogus"
PtrOf(w) == IF w[1] = "str" /\ IsOk(ParsePtr(w[2])) THEN ParsePtr(w[2])[2] ELSE BadPtr
\* one operation object of the recorded patch -> operation record of JsonPatch
OpOf(w) ==
  IF w[1] # "obj" THEN [op |-> "bogus", path |-> BadPtr, from |-> <<>>, value |-> JNull, has |-> {}]
  ELSE [op |-> IF HasM(w, KOp) /\ M(w, KOp)[1] = "str" THEN OpNameOf(M(w, KOp)[2]) ELSE "bogus",
        path |-> IF HasM(w, KPath) THEN PtrOf(M(w, KPath)) ELSE BadPtr,
        from |-> IF HasM(w, KFrom) THEN PtrOf(M(w, KFrom)) ELSE <<>>,
        value |-> IF HasM(w, KValue) THEN FromWire(M(w, KValue)) ELSE JNull,
        has |-> {n \in {"op", "path", "from", "value"} :
                   HasM(w, CASE n = "op" -> KOp [] n = "path" -> KPath [] n = "from" -> KFrom [] n = "value" -> KValue)}]
PatchOf(w) == IF w[1] = "arr" THEN [i \in 1..Len(w[2]) |-> OpOf(w[2][i])] ELSE << OpOf(w) >>

Init == l = 1
Next == /\ l <= Len(Tr)
        /\ Apply(FromWire(Tr[l].a), PatchOf(Tr[l].d)) = Ok(FromWire(Tr[l].b))
        /\ l' = l + 1
Accepted == TLCGet("stats").diameter - 1 = Len(Tr)
=============================================================================
