INIT Init
NEXT NextAll
CHECK_DEADLOCK FALSE
