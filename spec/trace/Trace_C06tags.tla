--------------------------- MODULE Trace_C06tags ---------------------------
(* Trace validation for the "tags" family of C06 (binary round trip of      *)
(* semantically tagged values and typed arrays).  One trace line = one      *)
(* recorded execution of harness/c06tags.cpp:                               *)
(*   fam = "val": the value v (data model + <<"tagged", tag, base>>) was    *)
(*         built with the real API, encoded by the real encoder of format f *)
(*         through `route` to `bytes` (or refused: enc = "err"), and        *)
(*         decode_X<json> read `dec` (with its tags) back from the bytes;   *)
(*   fam = "ta":  the std::vector<et> with elements el (raw bits) went      *)
(*         through route typed / enc / dom / stream with use_typed_arrays = *)
(*         ta; vdec = what decode_X<std::vector<et>> read back.             *)
(* A line is accepted iff BinTags says so:                                  *)
(*   LineClass = "dc"  : nothing is compared (declared don't-care)          *)
(*   LineClass = "out" : the encoder refused (never accepted-but-different) *)
(*   LineClass = "cmp" : the encoder did not refuse; the format's REFERENCE *)
(*         decoder (Cbor / Msgpack / Ubjson / Bson.tla) reads the bytes     *)
(*         completely, and leaf by leaf (BinTags!Walk) the bytes carry what *)
(*         the governing document prescribes (CBOR: tag 2/3 byte string     *)
(*         magnitude, tag 4/5 [exponent, mantissa], tag 1 number, tags 0,   *)
(*         32, 33, 34 text, 21-23 bytes, 64-87 typed arrays with the right  *)
(*         endianness and length; MessagePack timestamp of the same         *)
(*         instant; UBJSON 'H' of the same value; BSON x09) and the         *)
(*         library's own decode equals the value (in), its documented image *)
(*         (ts, hpn) or the untagged value (plain).                         *)
EXTENDS BinTags, Json, IOUtils, TLC
VARIABLE l
Tr == ndJsonDeserialize(IOEnv.TRACE)
M == INSTANCE Msgpack
B == INSTANCE Bson

SpecDecode(f, b) == CASE f = "cbor" -> C!Decode(b) [] f = "msgpack" -> M!Decode(b) [] f = "ubjson" -> U!Decode(b) [] f = "bson" -> B!Decode(b)
\* CBOR string packing (tags 256 / 25): resolve the references (per the stringref specification) before comparing
Unpack(f, route, v) == IF f = "cbor" /\ route = "packed" THEN C!ResolveStringRefs(v) ELSE v

RoundTrip(t, v) ==
  LET cls == LineClass(t.f, v) IN
  IF cls = "dc" THEN TRUE
  ELSE IF t.enc = "err" THEN cls = "out"                         \* refusing is allowed only outside the domain
  ELSE IF cls = "out" THEN FALSE                                 \* ... and required there
  ELSE LET r == SpecDecode(t.f, t.bytes) IN
       /\ r[1] = "ok" /\ r[3] = Len(t.bytes) + 1                 \* well-formed, nothing missing, nothing extra
       /\ t.dec_ok
       /\ Walk(t.f, v, Unpack(t.f, t.route, r[2]), t.dec)

ValOk(t) == RoundTrip(t, t.v)

Wrapped(x) == <<"map", << << <<"tstr", <<97>>>>, x >> >> >>      \* {"a": x}  (BSON documents are rooted in an object)
TaOk(t) ==
  LET v0 == TAValue(t.et, t.el)
      v == IF t.wrap THEN Wrapped(v0) ELSE v0
      r == IF t.enc = "ok" THEN SpecDecode(t.f, t.bytes) ELSE <<"err">>
      typedForm == t.f = "cbor" /\ r[1] = "ok" /\ r[2][1] = "tag"
  IN /\ IF typedForm
        THEN /\ t.ta                                              \* cbor.md: typed array tags "may be encoded when ... use_typed_arrays is set to true"
             /\ r[3] = Len(t.bytes) + 1
             /\ IsTypedArrayOf(t.et, t.el, r[2])                  \* RFC 8746: tag for the element type / endianness, n * width bytes, the elements
             /\ t.dec_ok /\ Walk("cbor", v0, v0, t.dec)            \* the library reads the elements back (reference side trivially v0)
        ELSE RoundTrip(t, v)
     /\ ("vdec_ok" \in DOMAIN t /\ t.enc = "ok" /\ LineClass(t.f, v) = "cmp")
          => (/\ t.vdec_ok /\ Len(t.vdec) = Len(t.el)             \* decode_X<std::vector<T>> returns the same elements
              /\ \A k \in 1..Len(t.el) : SameElem(t.et, t.vdec[k], t.el[k]))

LineOk(t) == IF t.fam = "val" THEN ValOk(t) ELSE TaOk(t)

Init == l = 1
\* strict: stops at the first refused line (POSTCONDITION Accepted fails; the depth is its index)
Next == l <= Len(Tr) /\ LineOk(Tr[l]) /\ l' = l + 1
Accepted == TLCGet("stats").diameter - 1 = Len(Tr)
\* report-all (Trace_C06tags_all.cfg): every refused line is printed, validation continues
NextAll == l <= Len(Tr) /\ l' = l + 1 /\ (LineOk(Tr[l]) \/ PrintT(ToJson([rej |-> l])))
=============================================================================
