---------------------------- MODULE Trace_C06pta ----------------------------
(* Trace validation for the "string references next to typed arrays" family *)
(* of C06.  One line = one execution: the item names pushed into the CBOR   *)
(* encoder (pack_strings + use_typed_arrays) inside one array, the bytes it *)
(* wrote, and what the library decoded back (kinds and string contents).    *)
(* Accepted iff the reference decoder (Cbor), after resolving string        *)
(* references, reads exactly the pushed items - text strings, the byte      *)
(* string, and for a typed array the RFC 8746 tag with the element bytes -  *)
(* and the library's own read-back names the same items.                    *)
EXTENDS Cbor, Json, IOUtils, TLC
VARIABLE l
Tr == ndJsonDeserialize(IOEnv.TRACE)
\* little-endian hosts: uint16 LE = tag 69, float64 LE = tag 86, uint8 = tag 64
Expected(name) ==
  CASE name = "s1" -> <<"tstr", <<97, 97, 97, 97>>>>
    [] name = "s2" -> <<"tstr", <<98, 98, 98, 98, 98>>>>
    [] name = "short" -> <<"tstr", <<122>>>>
    [] name = "b1" -> <<"bstr", <<99, 99, 99, 99>>>>
    [] name = "u16" -> <<"tag", <<69>>, <<"bstr", <<1, 0, 2, 0, 3, 0, 4, 0>>>>>>
    [] name = "f64" -> <<"tag", <<86>>, <<"bstr", <<0, 0, 0, 0, 0, 0, 240, 63>>>>>>
    [] name = "u8" -> <<"tag", <<64>>, <<"bstr", <<1, 2, 3>>>>>>
BackKind(name) == CASE name \in {"s1", "s2", "short"} -> name [] name = "b1" -> "b1" [] OTHER -> "arr"
LineOk(t) ==
  /\ t.enc = "ok"
  /\ LET r == Decode(t.bytes) IN
       /\ r[1] = "ok" /\ r[3] = Len(t.bytes) + 1
       /\ LET v == ResolveStringRefs(r[2]) IN
            /\ v[1] = "arr" /\ Len(v[2]) = Len(t.items)
            /\ \A i \in 1..Len(t.items) : v[2][i] = Expected(t.items[i])
  /\ t.dec = "ok" /\ Len(t.back) = Len(t.items)
  /\ \A i \in 1..Len(t.items) : t.back[i] = BackKind(t.items[i])
Init == l = 1
Next == l <= Len(Tr) /\ LineOk(Tr[l]) /\ l' = l + 1
Accepted == TLCGet("stats").diameter - 1 = Len(Tr)
=============================================================================
