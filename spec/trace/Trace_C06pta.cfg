INIT Init
NEXT Next
POSTCONDITION Accepted
CHECK_DEADLOCK FALSE
