----------------------------- MODULE Trace_C09 -----------------------------
(* Trace validation of the relational laws (ValueLaws) on observations      *)
(* recorded from the real comparison / conversion operators.                *)
EXTENDS ValueLaws, Json, IOUtils
VARIABLE l
Tr == ndJsonDeserialize(IOEnv.TRACE)
Init == l = 1
Next == /\ l <= Len(Tr)
        /\ IF Tr[l].e = "pair" THEN PairLaws(Tr[l]) ELSE ConvLaw(Tr[l])
        /\ l' = l + 1
Accepted == TLCGet("stats").diameter - 1 = Len(Tr)
=============================================================================
