----------------------------- MODULE Trace_C16 -----------------------------
(* Trace validation for C16 (diff law): every recorded execution            *)
(*   d = from_diff(s, t)                                                    *)
(* of the real library must satisfy  Merge(s, d) = t  with the SPEC's own   *)
(* RFC 7386 Merge (the diff itself is not predicted - any diff with this    *)
(* property is allowed).  One trace line per execution.                     *)
EXTENDS MergePatch, Json, IOUtils, TLC
VARIABLE l
Tr == ndJsonDeserialize(IOEnv.TRACE)

RECURSIVE FromWire(_)
FromWire(w) == CASE w[1] = "arr" -> JArr([i \in 1..Len(w[2]) |-> FromWire(w[2][i])])
                [] w[1] = "obj" -> JObj([k \in {w[2][i][1] : i \in 1..Len(w[2])} |->
                                          FromWire(w[2][CHOOSE i \in 1..Len(w[2]) : w[2][i][1] = k][2])])
                [] OTHER -> w

Init == l = 1
Next == /\ l <= Len(Tr)
        /\ Merge(FromWire(Tr[l].s), FromWire(Tr[l].d)) = FromWire(Tr[l].t)
        /\ l' = l + 1
Accepted == TLCGet("stats").diameter - 1 = Len(Tr)
=============================================================================
