---------------------------- MODULE Trace_C06big ----------------------------
(* Trace validation for the long-length family of C06.  One line = one       *)
(* recorded execution: the shape (format f, shape, length n) encoded by the  *)
(* real encoder (route), of which the first bytes `head`, the last two bytes *)
(* `last`, the size `total` and the library's own read-back verdict `rt` are *)
(* recorded.  Accepted iff the output is one of the header forms that the    *)
(* format specification allows for that shape and length with exactly the    *)
(* right total size (BinHeads!IsEncodingOf), and the library read it back to *)
(* an equal value.  Every shape here is representable in all four formats, so   *)
(* the encoder must not refuse.                                               *)
EXTENDS BinHeads, Json, IOUtils, TLC
VARIABLE l
Tr == ndJsonDeserialize(IOEnv.TRACE)
\* CBOR pack_strings: the output is wrapped in tag 256 (stringref namespace, d9 01 00); none of the shapes repeats a string
Packed(t) == t.f = "cbor" /\ t.route = "packed" /\ Len(t.head) >= 3 /\ SubSeq(t.head, 1, 3) = <<217, 1, 0>>
HeadOf(t) == IF Packed(t) THEN SubSeq(t.head, 4, Len(t.head)) ELSE t.head
TotalOf(t) == IF Packed(t) THEN t.total - 3 ELSE t.total
\* UBJSON has no byte string type: a byte string is written as a uint8 typed array and read back as such (doc/ref/ubjson)
ReadBack(t) == IF t.f = "ubjson" /\ t.shape = "bstr" THEN t.back_kind \in {"arr", "bstr"} /\ t.back_size = t.n
               ELSE t.rt /\ t.back_kind = t.shape /\ t.back_size = t.n
LineOk(t) == /\ t.enc = "ok"
             /\ IsEncodingOf(t.f, t.shape, t.n, HeadOf(t), t.last, TotalOf(t))
             /\ ReadBack(t)
Init == l = 1
Next == l <= Len(Tr) /\ LineOk(Tr[l]) /\ l' = l + 1
Accepted == TLCGet("stats").diameter - 1 = Len(Tr)
=============================================================================
