------------------------------ MODULE JsonPatch ------------------------------
(***************************************************************************)
(* RFC 6902 JSON Patch over JsonValue / JsonPointer.                       *)
(*                                                                         *)
(* Part 1 (document-shaped): Apply(doc, patch) as an ATOMIC total function *)
(*   -> <<"ok", doc'>> or <<"err">> (document unchanged by definition).     *)
(* Part 2 (implementation-shaped): the sequential loop of                  *)
(*   jsonpatch::apply_patch with its operation_unwinder: each operation is *)
(*   applied in place and an inverse entry is pushed on an undo log; on    *)
(*   failure the log is replayed backwards, one entry at a time, and the   *)
(*   replay stops at the first entry that fails.  TLC checks that this     *)
(*   machine refines the atomic function (MC_C15impl).                     *)
(*                                                                         *)
(* An operation is a record  [op, path, from, value, has]  where path/from *)
(* are token sequences or the marker BadPtr (a syntactically invalid       *)
(* pointer string) and `has` is the set of member names present            *)
(* (malformed operations lack "value"/"from"/"path"/"op").                 *)
(***************************************************************************)
EXTENDS JsonPointer

BadPtr == << <<1000000>> >>     \* marker (an impossible code point): stands for a syntactically invalid pointer string
KnownOps == {"add", "remove", "replace", "move", "copy", "test"}

RECURSIVE IsPrefixSeq(_, _)
IsPrefixSeq(a, b) == Len(a) <= Len(b) /\ SubSeq(b, 1, Len(a)) = a
ProperPrefix(a, b) == Len(a) < Len(b) /\ IsPrefixSeq(a, b)

\* section 4: well-formedness of one operation object
WellFormed(o) ==
  /\ "op" \in o.has /\ "path" \in o.has /\ o.op \in KnownOps /\ o.path # BadPtr
  /\ (o.op \in {"add", "replace", "test"} => "value" \in o.has)
  /\ (o.op \in {"move", "copy"} => ("from" \in o.has /\ o.from # BadPtr))

\* sections 4.1 - 4.6
ApplyOp(d, o) ==
  IF ~WellFormed(o) THEN Err
  ELSE CASE o.op = "add" -> Edit(d, o.path, "add", o.value, FALSE)
         [] o.op = "remove" -> Edit(d, o.path, "remove", JNull, FALSE)
         [] o.op = "replace" -> Edit(d, o.path, "replace", o.value, FALSE)
         [] o.op = "move" ->
              IF ProperPrefix(o.from, o.path) THEN Err
              ELSE LET g == Get(d, o.from) IN
                   IF ~IsOk(g) THEN Err
                   ELSE IF o.from = o.path THEN Ok(d)
                   ELSE LET r == Edit(d, o.from, "remove", JNull, FALSE) IN
                        IF ~IsOk(r) THEN Err ELSE Edit(r[2], o.path, "add", g[2], FALSE)
         [] o.op = "copy" ->
              LET g == Get(d, o.from) IN IF ~IsOk(g) THEN Err ELSE Edit(d, o.path, "add", g[2], FALSE)
         [] o.op = "test" ->
              LET g == Get(d, o.path) IN IF IsOk(g) /\ g[2] = o.value THEN Ok(d) ELSE Err

RECURSIVE ApplyFrom(_, _, _)
ApplyFrom(d, ops, i) == IF i > Len(ops) THEN Ok(d)
                        ELSE LET r == ApplyOp(d, ops[i]) IN IF IsOk(r) THEN ApplyFrom(r[2], ops, i + 1) ELSE Err
Apply(d, ops) == ApplyFrom(d, ops, 1)

-----------------------------------------------------------------------------
(* Part 2: the undo-log machine (jsonpatch.hpp: apply_patch +              *)
(* detail::operation_unwinder).  An undo entry is <<kind, tokens, value>>  *)
(* with kind in {"add","remove","replace"} executed with the pointer       *)
(* operations of the same name.                                            *)

\* detail::definite_path: a trailing "-" is replaced by the current array length
DefinitePath(d, toks) ==
  IF toks = <<>> \/ toks[Len(toks)] # <<DASH>> THEN toks
  ELSE LET parent == SubSeq(toks, 1, Len(toks) - 1)  g == Get(d, parent) IN
       IF IsOk(g) /\ IsArr(g[2]) THEN Append(parent, IdxTok(Len(g[2][2]))) ELSE toks

\* "add" as implemented: add_if_absent, else get + replace; returns <<"ok", doc', undo entry>> or <<"err">>
ImplAdd(d, toks, v) ==
  LET np == DefinitePath(d, toks)  ins == Edit(d, np, "add_if_absent", v, FALSE) IN
  IF IsOk(ins) THEN <<"ok", ins[2], <<"remove", np, JNull>>>>
  ELSE LET g == Get(d, np) IN
       IF ~IsOk(g) THEN Err
       ELSE LET rp == Edit(d, np, "replace", v, FALSE) IN
            IF IsOk(rp) THEN <<"ok", rp[2], <<"replace", np, g[2]>>>> ELSE Err

\* one operation of the loop: <<"ok", doc', entries pushed (in order)>> or <<"err", doc', entries>> (partial effects!)
ImplOp(d, o) ==
  IF ~("op" \in o.has) \/ ~("path" \in o.has) \/ o.path = BadPtr THEN <<"err", d, <<>>>>
  ELSE CASE o.op = "test" ->
              LET g == Get(d, o.path) IN
              IF ~IsOk(g) \/ ~("value" \in o.has) \/ g[2] # o.value THEN <<"err", d, <<>>>> ELSE <<"ok", d, <<>>>>
         [] o.op = "add" ->
              IF ~("value" \in o.has) THEN <<"err", d, <<>>>>
              ELSE LET r == ImplAdd(d, o.path, o.value) IN
                   IF IsOk(r) THEN <<"ok", r[2], <<r[3]>>>> ELSE <<"err", d, <<>>>>
         [] o.op = "remove" ->
              LET g == Get(d, o.path)  r == Edit(d, o.path, "remove", JNull, FALSE) IN
              IF IsOk(g) /\ IsOk(r) THEN <<"ok", r[2], << <<"add", o.path, g[2]>> >>>> ELSE <<"err", d, <<>>>>
         [] o.op = "replace" ->
              LET g == Get(d, o.path) IN
              IF ~IsOk(g) \/ ~("value" \in o.has) THEN <<"err", d, <<>>>>
              ELSE LET r == Edit(d, o.path, "replace", o.value, FALSE) IN
                   IF IsOk(r) THEN <<"ok", r[2], << <<"replace", o.path, g[2]>> >>>> ELSE <<"err", d, <<>>>>
         [] o.op = "move" ->
              IF ~("from" \in o.has) \/ o.from = BadPtr THEN <<"err", d, <<>>>>
              ELSE LET g == Get(d, o.from)  rm == Edit(d, o.from, "remove", JNull, FALSE) IN
                   IF ~IsOk(g) \/ ~IsOk(rm) THEN <<"err", d, <<>>>>
                   ELSE LET first == <<"add", o.from, g[2]>>  r == ImplAdd(rm[2], o.path, g[2]) IN
                        IF IsOk(r) THEN <<"ok", r[2], <<first, r[3]>>>> ELSE <<"err", rm[2], <<first>>>>
         [] o.op = "copy" ->
              IF ~("from" \in o.has) \/ o.from = BadPtr THEN <<"err", d, <<>>>>
              ELSE LET g == Get(d, o.from) IN
                   IF ~IsOk(g) THEN <<"err", d, <<>>>>
                   ELSE LET r == ImplAdd(d, o.path, g[2]) IN
                        IF IsOk(r) THEN <<"ok", r[2], <<r[3]>>>> ELSE <<"err", d, <<>>>>
         [] OTHER -> <<"err", d, <<>>>>           \* unknown "op" (RFC 6902 section 4: an error)

\* replay of one undo entry
Undo(d, e) == Edit(d, e[2], e[1], e[3], FALSE)

RECURSIVE ImplLoop(_, _, _, _)
ImplLoop(d, ops, i, log) ==
  IF i > Len(ops) THEN <<"commit", d, log>>
  ELSE LET r == ImplOp(d, ops[i]) IN
       IF r[1] = "err" THEN <<"abort", r[2], log \o r[3]>> ELSE ImplLoop(r[2], ops, i + 1, log \o r[3])
\* ~operation_unwinder: entries newest first; stop at the first entry that cannot be replayed
RECURSIVE Unwind(_, _)
Unwind(d, log) == IF log = <<>> THEN d
                  ELSE LET r == Undo(d, log[Len(log)]) IN IF IsOk(r) THEN Unwind(r[2], SubSeq(log, 1, Len(log) - 1)) ELSE d
ImplApply(d, ops) == LET r == ImplLoop(d, ops, 1, <<>>) IN
                     IF r[1] = "commit" THEN Ok(r[2]) ELSE <<"err", Unwind(r[2], r[3])>>

\* refinement obligation: the undo-log machine implements the atomic function
Refines(d, ops) == LET a == Apply(d, ops)  b == ImplApply(d, ops) IN
                   /\ IsOk(a) <=> IsOk(b)
                   /\ IsOk(a) => a[2] = b[2]
                   /\ ~IsOk(b) => b[2] = d
=============================================================================
