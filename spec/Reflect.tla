------------------------------ MODULE Reflect ------------------------------
(***************************************************************************)
(* C17 - typed encoding / decoding through jsoncons' reflection traits.    *)
(*                                                                         *)
(* A small type algebra, the JSON image of a typed value (ToJ) and the     *)
(* typed reading of a JSON value (FromJ), written from jsoncons' reference *)
(* documentation:                                                          *)
(*   [RT]  doc/ref/corelib/reflection-traits.md                            *)
(*   [JT]  doc/ref/corelib/reflect/json_traits.md, json_conv_traits.md     *)
(*         (the contract is(), try_as(), to_json() and its worked example) *)
(*   [GEN] doc/ref/corelib/reflect/reflect-traits-gen.md (trait macros,    *)
(*         examples A1..A11)                                               *)
(*   [BI]  doc/ref/corelib/legacy_reflect/built-in-specializations.md      *)
(*   [AS]  doc/ref/corelib/json/as.md     [IS] doc/ref/corelib/json/is.md  *)
(*   [DEC] doc/ref/corelib/decode_json.md [ENC] encode_json.md             *)
(* It is NOT a transcription of reflect/*.hpp.                             *)
(*                                                                         *)
(* (The operators are called ToJ / FromJ because ToJson is taken by the    *)
(* community module Json that the generators use for emission.)            *)
(*                                                                         *)
(* JSON values are JsonValue's tagged tuples.  Typed values:               *)
(*   <<"i", n>>  integer kinds and durations     <<"b", x>>   bool         *)
(*   <<"s", cps>> string                         <<"en", k>>  k-th enumerator *)
(*   <<"seq", <<v..>>>>  sequence containers, std::array                   *)
(*   <<"map", f>>   map<string,T> (f: key code points -> value)            *)
(*   <<"imap", f>>  map<int,T>    (f: integer -> value)                    *)
(*   <<"none">>, <<"some", v>>    optional, unique_ptr, shared_ptr         *)
(*   <<"tup", <<v..>>>>           tuple, pair                              *)
(*   <<"alt", k, v>>              variant (k-th alternative), polymorphic  *)
(*                                pointer (k-th derived class)             *)
(*   <<"rec", <<v..>>>>           class: one value per declared member, in *)
(*                                declaration order                        *)
(*   <<"bits", <<b0, b1, ..>>>>   bitset (b0 = bit 0)                      *)
(***************************************************************************)
EXTENDS JsonValue, Integers

(***************************** type algebra *******************************)
\* integer kinds: the C++ type decides the range ([IS] "integral and within the range of")
TInt(kind) == <<"int", kind>>          \* kind in {"i32","u32","u8","i8"}
TBool == <<"bool">>
TStr == <<"str">>
TVec(T) == <<"vec", T>>                \* vector / list / deque  [BI sequence containers]
TArr(T, n) == <<"arr", T, n>>          \* std::array<T,n>        [BI sequence containers]
TMap(T) == <<"map", T>>                \* (unordered_)map<string,T>  [BI associative containers]
TIMap(T) == <<"imap", T>>              \* map<int,T>             [BI "std::map with integer key"]
TOpt(T) == <<"opt", T>>                \* std::optional          [BI optional, GEN A3]
TPtr(T) == <<"ptr", T>>                \* unique_ptr / shared_ptr of a non-polymorphic T [BI smart_ptr, GEN A3]
TTup(Ts) == <<"tup", Ts>>              \* "encodes an std::tuple as a fixed size JSON array" [BI tuple]
TPair(A, B) == <<"pair", <<A, B>>>>    \* "encodes an std::pair as a JSON array of size 2"   [BI pair]
TVar(Ts) == <<"var", Ts>>              \* std::variant           [BI variant, GEN A7, A8]
TEnum(names) == <<"enum", names>>      \* JSONCONS_ENUM_TRAITS / ENUM_NAME_TRAITS [GEN (9),(10)]
\* a class member: serialized name, type, mandatory?, and the value the C++ class holds when a
\* non-mandatory member is absent ("the rest can have default values" [GEN (1)..(26)])
Mem(n, T, mand, dflt) == [n |-> n, t |-> T, m |-> mand, d |-> dflt]
\* fam names the macro family that declares the traits: "member" (N_/ALL_MEMBER[_NAME], TPL_ variants), "ctor"
\* (N_/ALL_CTOR_GETTER[_NAME]), "getset" (N_/ALL_GETTER_SETTER[_NAME]); the documented behaviour is the same for all three
TStruct(fam, ms) == <<"struct", ms, fam>>
TPoly(Ss) == <<"poly", Ss>>            \* JSONCONS_POLYMORPHIC_TRAITS(base, derived...) [GEN (27), A4]
TBits(n) == <<"bits", n>>              \* std::bitset<n>         [BI bitset]
TSecs == <<"secs">>                    \* std::chrono::seconds   [BI duration]

InRange(kind, n) == CASE kind = "i32" -> TRUE                  \* every TLC integer fits int32_t
                      [] kind = "u32" -> n >= 0
                      [] kind = "u8" -> n >= 0 /\ n <= 255
                      [] kind = "i8" -> n >= -128 /\ n <= 127

(************************** decimal / hex text ****************************)
RECURSIVE NatStr(_)
NatStr(n) == IF n < 10 THEN <<48 + n>> ELSE NatStr(n \div 10) \o <<48 + (n % 10)>>
IntStr(n) == IF n < 0 THEN <<45>> \o NatStr(0 - n) ELSE NatStr(n)
IsDigit(c) == c >= 48 /\ c <= 57
RECURSIVE DigitsVal(_, _)
DigitsVal(s, acc) == IF s = <<>> THEN acc ELSE DigitsVal(Tail(s), (acc * 10) + (Head(s) - 48))
\* a member name used as an integer key: <<"int", n>> if it is the canonical decimal text of n,
\* <<"num">> if it merely looks numeric (sign, leading zeros, ...), <<"no">> otherwise
KeyAsInt(s) ==
  LET neg == s # <<>> /\ s[1] = 45
      ds == IF neg THEN Tail(s) ELSE s
  IN IF ds # <<>> /\ Len(ds) <= 9 /\ \A i \in 1..Len(ds) : IsDigit(ds[i])
     THEN IF (Len(ds) > 1 /\ ds[1] = 48) \/ (neg /\ ds = <<48>>) THEN <<"num">>
          ELSE <<"int", IF neg THEN 0 - DigitsVal(ds, 0) ELSE DigitsVal(ds, 0)>>
     ELSE IF \E i \in 1..Len(s) : IsDigit(s[i]) THEN <<"num">> ELSE <<"no">>
LooksNumeric(s) == \E i \in 1..Len(s) : IsDigit(s[i])

HexDigit(k) == IF k < 10 THEN 48 + k ELSE 55 + k          \* upper case, as in the [BI bitset] examples
\* [BI bitset]: bit i of the bitset is the i-th bit of the byte string counted from the most
\* significant bit of the first byte (std::bitset<8>(42) -> 0x54; std::bitset<70>(2^64-1) ->
\* "FFFFFFFFFFFFFFFF00"); the last byte is padded with zero bits
BitAt(b, i) == IF i <= Len(b) THEN b[i] ELSE 0
Nibble(b, k) == (8 * BitAt(b, (4 * k) + 1)) + (4 * BitAt(b, (4 * k) + 2)) + (2 * BitAt(b, (4 * k) + 3)) + BitAt(b, (4 * k) + 4)
NBytes(n) == (n + 7) \div 8
BitsHex(b) == [k \in 1..(2 * NBytes(Len(b))) |-> HexDigit(Nibble(b, k - 1))]
HexVal(c) == CASE c >= 48 /\ c <= 57 -> c - 48 [] c >= 65 /\ c <= 70 -> c - 55 [] c >= 97 /\ c <= 102 -> c - 87 [] OTHER -> 16
HexBit(s, i) == LET v == HexVal(s[((i - 1) \div 4) + 1])  p == (i - 1) % 4
                IN (v \div (CASE p = 0 -> 8 [] p = 1 -> 4 [] p = 2 -> 2 [] p = 3 -> 1)) % 2

(****************************** ToJ ***************************************)
RECURSIVE ToJ(_, _)
\* which members of a class value are written: a mandatory member always; a non-mandatory one
\* unless it is an empty optional / null pointer ([GEN A3]: field4..6 -> null, field10..12 omitted;
\* [JT] worked example: "if (val.optional) j.try_emplace(...)")
Written(m, v) == m.m \/ ~(m.t[1] \in {"opt", "ptr"} /\ v = <<"none">>)
StructJ(ms, vs) == LET idx == {i \in 1..Len(ms) : Written(ms[i], vs[i])}
                   IN JObj([k \in {ms[i].n : i \in idx} |-> LET i == CHOOSE i \in idx : ms[i].n = k IN ToJ(ms[i].t, vs[i])])
ToJ(T, v) ==
  CASE T[1] = "int" -> JInt(v[2])
    [] T[1] = "bool" -> JBool(v[2])
    [] T[1] = "str" -> JStr(v[2])
    [] T[1] \in {"vec", "arr"} -> JArr([i \in 1..Len(v[2]) |-> ToJ(T[2], v[2][i])])
    [] T[1] = "map" -> JObj([k \in DOMAIN v[2] |-> ToJ(T[2], v[2][k])])
    \* [BI "std::map with integer key"]: {1:"foo"} -> {"1":"foo"}
    [] T[1] = "imap" -> JObj([k \in {IntStr(n) : n \in DOMAIN v[2]} |-> ToJ(T[2], v[2][CHOOSE n \in DOMAIN v[2] : IntStr(n) = k])])
    [] T[1] \in {"opt", "ptr"} -> IF v = <<"none">> THEN JNull ELSE ToJ(T[2], v[2])     \* [GEN A3], [BI variant example: nullptr -> null]
    [] T[1] \in {"tup", "pair"} -> JArr([i \in 1..Len(T[2]) |-> ToJ(T[2][i], v[2][i])])
    [] T[1] \in {"var", "poly"} -> ToJ(T[2][v[2]], v[3])                                \* [GEN A4, A7]: the alternative's own image
    [] T[1] = "enum" -> JStr(T[2][v[2]])                                                \* [GEN (9),(10)]
    [] T[1] = "struct" -> StructJ(T[2], v[2])
    [] T[1] = "bits" -> JStr(BitsHex(v[2]))
    [] T[1] = "secs" -> JInt(v[2])                                                      \* [BI duration], [GEN A2 "generated": 1514862245]

(****************************** Is ****************************************)
(* [JT]/[IS]: is() "indicates whether j satisfies the requirements of T"   *)
(* and drives the type selection of variants and polymorphic pointers.     *)
RECURSIVE Is(_, _)
Is(T, j) ==
  CASE T[1] = "int" -> j[1] = "int" /\ InRange(T[2], j[2])                 \* [IS (4),(5)]
    [] T[1] = "bool" -> j[1] = "bool"
    [] T[1] = "str" -> j[1] = "str"
    [] T[1] = "vec" -> IsArr(j) /\ \A i \in 1..Len(j[2]) : Is(T[2], j[2][i])           \* [IS] is<X<T>>
    [] T[1] = "arr" -> IsArr(j) /\ Len(j[2]) = T[3] /\ \A i \in 1..Len(j[2]) : Is(T[2], j[2][i])
    [] T[1] = "map" -> IsObj(j) /\ \A k \in DOMAIN j[2] : Is(T[2], j[2][k])            \* [IS] is<X<string,T>>
    [] T[1] = "imap" -> IsObj(j) /\ \A k \in DOMAIN j[2] : KeyAsInt(k)[1] = "int" /\ Is(T[2], j[2][k])
    [] T[1] \in {"opt", "ptr"} -> IsNull(j) \/ Is(T[2], j)
    [] T[1] \in {"tup", "pair"} -> IsArr(j) /\ Len(j[2]) >= Len(T[2]) /\ \A i \in 1..Len(T[2]) : Is(T[2][i], j[2][i])
    [] T[1] \in {"var", "poly"} -> \E k \in 1..Len(T[2]) : Is(T[2][k], j)
    [] T[1] = "enum" -> j[1] = "str" /\ \E k \in 1..Len(T[2]) : T[2][k] = j[2]         \* [GEN A8]: "YELLOW" is detected to be a Color
    \* [GEN A4, A8]: "the type selection strategy is based on the presence of mandatory members"
    [] T[1] = "struct" -> IsObj(j) /\ \A i \in 1..Len(T[2]) : T[2][i].m => T[2][i].n \in DOMAIN j[2]
    [] T[1] = "bits" -> j[1] = "str"
    [] T[1] = "secs" -> j[1] = "int"

(****************************** FromJ *************************************)
(* Result: <<"ok", v>> | <<"err">> (a conversion error must be reported)   *)
(*         | <<"dc">> (the documents do not fix the outcome).              *)
Ok(v) == <<"ok", v>>
Err == <<"err">>
DC == <<"dc">>
\* results of the parts of a container: an error anywhere is an error of the whole (whatever an
\* undetermined part does); otherwise one undetermined part makes the whole undetermined
Combine(rs) == IF \E i \in 1..Len(rs) : rs[i] = Err THEN Err
               ELSE IF \E i \in 1..Len(rs) : rs[i] = DC THEN DC
               ELSE Ok([i \in 1..Len(rs) |-> rs[i][2]])
WithTag(tag, r) == IF r[1] = "ok" THEN Ok(<<tag, r[2]>>) ELSE r

RECURSIVE FromJ(_, _)
FirstIs(Ts, j) == CHOOSE k \in 1..Len(Ts) : Is(Ts[k], j) /\ \A h \in 1..(k - 1) : ~Is(Ts[h], j)
Select(Ts, j) ==  \* [GEN A8]: "checking each type in the variant from left to right, and stopping when is(j) returns true"
  IF \A k \in 1..Len(Ts) : ~Is(Ts[k], j) THEN Err
  ELSE LET k == FirstIs(Ts, j)  r == FromJ(Ts[k], j)
       IN IF r[1] = "ok" THEN Ok(<<"alt", k, r[2]>>)
          ELSE DC      \* the selected alternative cannot be read: whether the next one is tried is not addressed
StructFrom(ms, j) ==
  IF ~IsObj(j) THEN Err                                           \* wrong container kind; [JT] example: not_map
  ELSE Combine([i \in 1..Len(ms) |->
         IF ms[i].n \in DOMAIN j[2] THEN FromJ(ms[i].t, j[2][ms[i].n])
         ELSE IF ms[i].m THEN Err                                 \* [GEN (1)]: mandatory names are "required ... be present in the JSON"; [JT] example: missing_required_member
         ELSE Ok(ms[i].d)])                                       \* "the rest can have default values"
       \* members of j that the class does not declare are not looked at ([JT] example reads by name only)
FromJ(T, j) ==
  CASE T[1] = "int" ->
         IF j[1] = "int" THEN (IF InRange(T[2], j[2]) THEN Ok(<<"i", j[2]>>) ELSE DC)     \* out of range: [AS] examples (2),(5) show wrap-around, [IS] says "not the same"
         ELSE IF j[1] = "bool" THEN DC                                                   \* [AS] example (8): as<int>() of true
         ELSE IF j[1] = "str" /\ LooksNumeric(j[2]) THEN DC                              \* [AS] example (9): numbers held in strings convert
         ELSE Err                                                                       \* null, other strings, arrays, objects
    [] T[1] = "bool" ->
         IF j[1] = "bool" THEN Ok(<<"b", j[2]>>)
         ELSE IF j[1] = "int" THEN DC                                                    \* number -> bool is not addressed
         ELSE Err
    [] T[1] = "str" ->
         IF j[1] = "str" THEN Ok(<<"s", j[2]>>)
         ELSE DC                                                                        \* [AS]: as<std::string>() "if value is string, returns value, otherwise returns result of dump"
    [] T[1] = "vec" ->
         IF ~IsArr(j) THEN Err                                                           \* [AS] as<X<T>>(): "if the json value is an array and each element is convertible to T, otherwise throws"
         ELSE WithTag("seq", Combine([i \in 1..Len(j[2]) |-> FromJ(T[2], j[2][i])]))
    [] T[1] = "arr" ->
         IF ~IsArr(j) \/ Len(j[2]) < T[3] THEN Err                                       \* too few elements: nothing to fill the array with
         ELSE IF Len(j[2]) > T[3] THEN (IF \E i \in 1..T[3] : FromJ(T[2], j[2][i]) = Err THEN Err ELSE DC)   \* surplus elements: not addressed
         ELSE WithTag("seq", Combine([i \in 1..T[3] |-> FromJ(T[2], j[2][i])]))
    [] T[1] = "map" ->
         IF ~IsObj(j) THEN Err                                                           \* [AS] as<X<std::string,T>>()
         ELSE LET ks == SetToSeq(DOMAIN j[2])
                  r == Combine([i \in 1..Len(ks) |-> FromJ(T[2], j[2][ks[i]])])
              IN IF r[1] = "ok" THEN Ok(<<"map", [k \in DOMAIN j[2] |-> r[2][CHOOSE i \in 1..Len(ks) : ks[i] = k]]>>) ELSE r
    [] T[1] = "imap" ->
         IF ~IsObj(j) THEN Err
         ELSE LET ks == SetToSeq(DOMAIN j[2])
                  kr == [i \in 1..Len(ks) |-> KeyAsInt(ks[i])]
                  r == Combine([i \in 1..Len(ks) |-> IF kr[i][1] = "no" THEN Err             \* a name that is no number cannot become an integer key
                                                   ELSE IF kr[i][1] = "num" THEN (IF FromJ(T[2], j[2][ks[i]]) = Err THEN Err ELSE DC)   \* "01", "-0": not addressed
                                                   ELSE FromJ(T[2], j[2][ks[i]])])
              IN IF r[1] = "ok" THEN Ok(<<"imap", [n \in {kr[i][2] : i \in 1..Len(ks)} |-> r[2][CHOOSE i \in 1..Len(ks) : kr[i][2] = n]]>>) ELSE r
    [] T[1] \in {"opt", "ptr"} ->
         IF IsNull(j) THEN Ok(<<"none">>)                                                \* [GEN A3]: null -> empty optional / null pointer
         ELSE WithTag("some", FromJ(T[2], j))
    [] T[1] = "tup" ->
         IF ~IsArr(j) \/ Len(j[2]) < Len(T[2]) THEN Err                                  \* wrong container kind / too few elements for a tuple
         ELSE IF Len(j[2]) > Len(T[2]) THEN (IF \E i \in 1..Len(T[2]) : FromJ(T[2][i], j[2][i]) = Err THEN Err ELSE DC)   \* "fixed size": surplus not addressed
         ELSE WithTag("tup", Combine([i \in 1..Len(T[2]) |-> FromJ(T[2][i], j[2][i])]))
    [] T[1] = "pair" ->
         IF ~IsArr(j) \/ Len(j[2]) < 2 THEN Err
         ELSE IF Len(j[2]) > 2 THEN (IF \E i \in 1..2 : FromJ(T[2][i], j[2][i]) = Err THEN Err ELSE DC)
         ELSE WithTag("tup", Combine([i \in 1..2 |-> FromJ(T[2][i], j[2][i])]))
    [] T[1] = "var" -> Select(T[2], j)
    [] T[1] = "poly" -> IF IsNull(j) THEN DC ELSE Select(T[2], j)                        \* null for a polymorphic pointer: not addressed
    [] T[1] = "enum" ->
         IF j[1] = "str" /\ \E k \in 1..Len(T[2]) : T[2][k] = j[2]
         THEN Ok(<<"en", CHOOSE k \in 1..Len(T[2]) : T[2][k] = j[2]>>)
         ELSE Err                                                                       \* no enumerator has that serialized name / not a string
    [] T[1] = "struct" -> WithTag("rec", StructFrom(T[2], j))
    [] T[1] = "bits" ->
         IF j[1] = "str" THEN
            LET s == j[2]  n == T[2] IN
            IF \E i \in 1..Len(s) : HexVal(s[i]) = 16 THEN Err                           \* not base16 text
            ELSE IF Len(s) = 2 * NBytes(n) /\ (\A i \in 1..Len(s) : s[i] < 97) /\ (\A i \in (n + 1)..(4 * Len(s)) : HexBit(s, i) = 0)
                 THEN Ok(<<"bits", [i \in 1..n |-> HexBit(s, i)]>>)
                 ELSE DC                                                                \* other lengths / lower case / set padding bits: not addressed
         ELSE IF j[1] = "int" THEN DC                                                    \* [BI bitset] "can decode from integers": bit order not given
         ELSE Err
    [] T[1] = "secs" ->
         IF j[1] = "int" THEN Ok(<<"i", j[2]>>)
         ELSE IF j[1] = "bool" \/ (j[1] = "str" /\ LooksNumeric(j[2])) THEN DC
         ELSE Err

(************************* bounded value universes *************************)
\* U: [ints, bools, strs, maxlen, keys, ikeys, bits] - base domains for enumeration
RECURSIVE ProdSeq(_)
ProdSeq(Ss) == IF Ss = <<>> THEN {<<>>} ELSE { <<h>> \o t : h \in Ss[1], t \in ProdSeq(Tail(Ss)) }
RECURSIVE SeqsUpTo(_, _)
SeqsUpTo(S, n) == IF n = 0 THEN {<<>>} ELSE LET P == SeqsUpTo(S, n - 1) IN P \cup { Append(s, x) : s \in {p \in P : Len(p) = n - 1}, x \in S }
RECURSIVE Vals(_, _)
\* a variant value round-trips only if no earlier alternative claims its image ([GEN A8]: "types that
\* are more constrained should appear to the left"): such values are not in the universe
Canonical(Ts, k, v) == \A h \in 1..(k - 1) : ~Is(Ts[h], ToJ(Ts[k], v))
Vals(T, U) ==
  CASE T[1] = "int" -> { <<"i", n>> : n \in {m \in U.ints : InRange(T[2], m)} }
    [] T[1] = "bool" -> { <<"b", x>> : x \in U.bools }
    [] T[1] = "str" -> { <<"s", s>> : s \in U.strs }
    [] T[1] = "vec" -> { <<"seq", s>> : s \in SeqsUpTo(Vals(T[2], U), U.maxlen) }
    [] T[1] = "arr" -> { <<"seq", s>> : s \in ProdSeq([i \in 1..T[3] |-> Vals(T[2], U)]) }
    [] T[1] = "map" -> { <<"map", f>> : f \in UNION { [K -> Vals(T[2], U)] : K \in SUBSET U.keys } }
    [] T[1] = "imap" -> { <<"imap", f>> : f \in UNION { [K -> Vals(T[2], U)] : K \in SUBSET U.ikeys } }
    [] T[1] \in {"opt", "ptr"} -> { <<"none">> } \cup { <<"some", v>> : v \in Vals(T[2], U) }
    [] T[1] \in {"tup", "pair"} -> { <<"tup", s>> : s \in ProdSeq([i \in 1..Len(T[2]) |-> Vals(T[2][i], U)]) }
    [] T[1] \in {"var", "poly"} -> UNION { { <<"alt", k, v>> : v \in {w \in Vals(T[2][k], U) : Canonical(T[2], k, w)} } : k \in 1..Len(T[2]) }
    [] T[1] = "enum" -> { <<"en", k>> : k \in 1..Len(T[2]) }
    [] T[1] = "struct" -> { <<"rec", s>> : s \in ProdSeq([i \in 1..Len(T[2]) |-> Vals(T[2][i].t, U)]) }
    [] T[1] = "bits" -> { <<"bits", b>> : b \in {c \in U.bits : Len(c) = T[2]} }
    [] T[1] = "secs" -> { <<"i", n>> : n \in U.ints }

(**************** wire form of typed values (for emission) *****************)
RECURSIVE VWire(_)
VWire(v) ==
  CASE v[1] \in {"seq", "tup", "rec"} -> <<v[1], [i \in 1..Len(v[2]) |-> VWire(v[2][i])]>>
    [] v[1] \in {"map", "imap"} -> LET ks == SetToSeq(DOMAIN v[2]) IN <<v[1], [i \in 1..Len(ks) |-> <<ks[i], VWire(v[2][ks[i]])>>]>>
    [] v[1] = "some" -> <<"some", VWire(v[2])>>
    [] v[1] = "alt" -> <<"alt", v[2], VWire(v[3])>>
    [] OTHER -> v

(**************** does a type mention one of the given constructors ********)
RECURSIVE Mentions(_, _)
Mentions(T, tags) ==
  T[1] \in tags \/
  CASE T[1] \in {"vec", "arr", "map", "imap", "opt", "ptr"} -> Mentions(T[2], tags)
    [] T[1] \in {"tup", "pair", "var", "poly"} -> \E i \in 1..Len(T[2]) : Mentions(T[2][i], tags)
    [] T[1] = "struct" -> \E i \in 1..Len(T[2]) : Mentions(T[2][i].t, tags)
    [] OTHER -> FALSE
=============================================================================
