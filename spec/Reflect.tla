------------------------------ MODULE Reflect ------------------------------
(***************************************************************************)
(* C17 - typed encoding / decoding through jsoncons' reflection traits.    *)
(*                                                                         *)
(* A small type algebra, the JSON image of a typed value (ToJ) and the     *)
(* typed reading of a JSON value (FromJ), written from jsoncons' reference *)
(* documentation:                                                          *)
(*   [RT]  doc/ref/corelib/reflection-traits.md                            *)
(*   [JT]  doc/ref/corelib/reflect/json_traits.md, json_conv_traits.md     *)
(*         (the contract is(), try_as(), to_json() and its worked example) *)
(*   [GEN] doc/ref/corelib/reflect/reflect-traits-gen.md (trait macros,    *)
(*         examples A1..A11)                                               *)
(*   [BI]  doc/ref/corelib/legacy_reflect/built-in-specializations.md      *)
(*   [AS]  doc/ref/corelib/json/as.md     [IS] doc/ref/corelib/json/is.md  *)
(*   [DEC] doc/ref/corelib/decode_json.md [ENC] encode_json.md             *)
(* It is NOT a transcription of reflect/*.hpp.                             *)
(*                                                                         *)
(* (The operators are called ToJ / FromJ because ToJson is taken by the    *)
(* community module Json that the generators use for emission.)            *)
(*                                                                         *)
(* JSON values are JsonValue's tagged tuples, plus two number forms that    *)
(* JsonValue does not have: <<"wide", neg, ds>> (an integer of magnitude   *)
(* > 2147483647: sign, decimal digit code points, no leading zero - every  *)
(* integer has exactly one representation) and <<"dec", m, e>> (the binary *)
(* floating point number m * 10^e; only values that float represents       *)
(* exactly are used).  Typed values:                                       *)
(*   <<"i", n>>  integer kinds and durations     <<"b", x>>   bool         *)
(*   <<"iw", neg, ds>> an integer whose magnitude exceeds 2147483647 (TLC's *)
(*                integers are 32 bit): sign and decimal digits             *)
(*   <<"f", m, e>>  float / double with the value m * 10^e                  *)
(*   <<"s", cps>> string                         <<"en", k>>  k-th enumerator *)
(*   <<"seq", <<v..>>>>  sequence containers, std::array                   *)
(*   <<"map", f>>   map<string,T> (f: key code points -> value)            *)
(*   <<"imap", f>>  map<int,T>    (f: integer -> value)                    *)
(*   <<"none">>, <<"some", v>>    optional, unique_ptr, shared_ptr         *)
(*   <<"tup", <<v..>>>>           tuple, pair                              *)
(*   <<"alt", k, v>>              variant (k-th alternative), polymorphic  *)
(*                                pointer (k-th derived class)             *)
(*   <<"rec", <<v..>>>>           class: one value per declared member, in *)
(*                                declaration order                        *)
(*   <<"bits", <<b0, b1, ..>>>>   bitset (b0 = bit 0)                      *)
(***************************************************************************)
EXTENDS JsonValue, Integers

(***************************** type algebra *******************************)
\* integer kinds: the C++ type decides the range ([IS] "integral and within the range of")
TInt(kind) == <<"int", kind>>          \* kind in {"i8","u8","i16","u16","i32","u32","i64","u64"}
TFlt(kind) == <<"flt", kind>>          \* kind in {"f32","f64"}: float, double
TBool == <<"bool">>
TStr == <<"str">>
TVec(T) == <<"vec", T>>                \* vector / list / deque  [BI sequence containers]
TArr(T, n) == <<"arr", T, n>>          \* std::array<T,n>        [BI sequence containers]
TMap(T) == <<"map", T>>                \* (unordered_)map<string,T>  [BI associative containers]
TIMap(T) == <<"imap", T>>              \* map<int,T>             [BI "std::map with integer key"]
TOpt(T) == <<"opt", T>>                \* std::optional          [BI optional, GEN A3]
TPtr(T) == <<"ptr", T>>                \* unique_ptr / shared_ptr of a non-polymorphic T [BI smart_ptr, GEN A3]
TTup(Ts) == <<"tup", Ts>>              \* "encodes an std::tuple as a fixed size JSON array" [BI tuple]
TPair(A, B) == <<"pair", <<A, B>>>>    \* "encodes an std::pair as a JSON array of size 2"   [BI pair]
TVar(Ts) == <<"var", Ts>>              \* std::variant           [BI variant, GEN A7, A8]
TEnum(names) == <<"enum", names>>      \* JSONCONS_ENUM_TRAITS / ENUM_NAME_TRAITS [GEN (9),(10)]
\* a class member: serialized name, type, mandatory?, and the value the C++ class holds when a
\* non-mandatory member is absent ("the rest can have default values" [GEN (1)..(26)])
Mem(n, T, mand, dflt) == [n |-> n, t |-> T, m |-> mand, d |-> dflt]
\* fam names the macro family that declares the traits: "member" (N_/ALL_MEMBER[_NAME], TPL_ variants), "ctor"
\* (N_/ALL_CTOR_GETTER[_NAME]), "getset" (N_/ALL_GETTER_SETTER, ALL_GETTER_SETTER_NAME), "getsetn" (N_GETTER_SETTER_NAME);
\* the documented behaviour is the same for all of them
TStruct(fam, ms) == <<"struct", ms, fam>>
TPoly(Ss) == <<"poly", Ss>>            \* JSONCONS_POLYMORPHIC_TRAITS(base, derived...) [GEN (27), A4]
TBits(n) == <<"bits", n>>              \* std::bitset<n>         [BI bitset]
TSecs == <<"secs">>                    \* std::chrono::seconds   [BI duration]

(************************** decimal / hex text ****************************)
RECURSIVE NatStr(_)
NatStr(n) == IF n < 10 THEN <<48 + n>> ELSE NatStr(n \div 10) \o <<48 + (n % 10)>>
IntStr(n) == IF n < 0 THEN <<45>> \o NatStr(0 - n) ELSE NatStr(n)
IsDigit(c) == c >= 48 /\ c <= 57
RECURSIVE DigitsVal(_, _)
DigitsVal(s, acc) == IF s = <<>> THEN acc ELSE DigitsVal(Tail(s), (acc * 10) + (Head(s) - 48))
\* a member name used as an integer key: <<"int", n>> if it is the canonical decimal text of n,
\* <<"num">> if it merely looks numeric (sign, leading zeros, ...), <<"no">> otherwise
KeyAsInt(s) ==
  LET neg == s # <<>> /\ s[1] = 45
      ds == IF neg THEN Tail(s) ELSE s
  IN IF ds # <<>> /\ Len(ds) <= 9 /\ \A i \in 1..Len(ds) : IsDigit(ds[i])
     THEN IF (Len(ds) > 1 /\ ds[1] = 48) \/ (neg /\ ds = <<48>>) THEN <<"num">>
          ELSE <<"int", IF neg THEN 0 - DigitsVal(ds, 0) ELSE DigitsVal(ds, 0)>>
     ELSE IF \E i \in 1..Len(s) : IsDigit(s[i]) THEN <<"num">> ELSE <<"no">>
LooksNumeric(s) == \E i \in 1..Len(s) : IsDigit(s[i])

(************************ integers beyond 32 bits **************************)
JWide(neg, ds) == <<"wide", neg, ds>>
JDec(m, e) == <<"dec", m, e>>
\* the m * 10^e that float represents exactly, among those the generators use (0.5, -2.25, 0.0, 3.0, 1e10; 0.1 is double only - the
\* harness cross-checks: a float built from one of these must widen to the same double)
FloatExact(m, e) == <<m, e>> \in {<<5, -1>>, <<-225, -2>>, <<0, 0>>, <<3, 0>>, <<1, 10>>}
IsIntJ(j) == j[1] \in {"int", "wide"}
NegOf(j) == IF j[1] = "int" THEN j[2] < 0 ELSE j[2]
MagOf(j) == IF j[1] = "int" THEN NatStr(IF j[2] < 0 THEN 0 - j[2] ELSE j[2]) ELSE j[3]
\* a <= b on canonical decimal digit strings
DLe(a, b) == Len(a) < Len(b) \/ (Len(a) = Len(b) /\ (a = b \/ \E i \in 1..Len(a) : a[i] < b[i] /\ \A h \in 1..(i - 1) : a[h] = b[h]))
D127 == <<49, 50, 55>>  D128 == <<49, 50, 56>>  D255 == <<50, 53, 53>>  D0 == <<48>>
D32767 == <<51, 50, 55, 54, 55>>  D32768 == <<51, 50, 55, 54, 56>>  D65535 == <<54, 53, 53, 51, 53>>
D2p31m1 == <<50, 49, 52, 55, 52, 56, 51, 54, 52, 55>>  D2p31 == <<50, 49, 52, 55, 52, 56, 51, 54, 52, 56>>  D2p31p1 == <<50, 49, 52, 55, 52, 56, 51, 54, 52, 57>>
D2p32m1 == <<52, 50, 57, 52, 57, 54, 55, 50, 57, 53>>  D2p32 == <<52, 50, 57, 52, 57, 54, 55, 50, 57, 54>>
D2p63m1 == <<57, 50, 50, 51, 51, 55, 50, 48, 51, 54, 56, 53, 52, 55, 55, 53, 56, 48, 55>>
D2p63 == <<57, 50, 50, 51, 51, 55, 50, 48, 51, 54, 56, 53, 52, 55, 55, 53, 56, 48, 56>>
D2p63p1 == <<57, 50, 50, 51, 51, 55, 50, 48, 51, 54, 56, 53, 52, 55, 55, 53, 56, 48, 57>>
D2p64m1 == <<49, 56, 52, 52, 54, 55, 52, 52, 48, 55, 51, 55, 48, 57, 53, 53, 49, 54, 49, 53>>
D2p64 == <<49, 56, 52, 52, 54, 55, 52, 52, 48, 55, 51, 55, 48, 57, 53, 53, 49, 54, 49, 54>>
\* [IS (4),(5)]: "integral and within the range of" the C++ type: largest magnitude on the positive / negative side
PosMax(kind) == CASE kind = "i8" -> D127 [] kind = "u8" -> D255 [] kind = "i16" -> D32767 [] kind = "u16" -> D65535
                  [] kind = "i32" -> D2p31m1 [] kind = "u32" -> D2p32m1 [] kind = "i64" -> D2p63m1 [] kind = "u64" -> D2p64m1
NegMax(kind) == CASE kind = "i8" -> D128 [] kind = "i16" -> D32768 [] kind = "i32" -> D2p31 [] kind = "i64" -> D2p63 [] OTHER -> D0
InRange(kind, j) == IF NegOf(j) THEN DLe(MagOf(j), NegMax(kind)) ELSE DLe(MagOf(j), PosMax(kind))
\* the same boundaries written down a second time as JSON integers: smallest / largest value of the kind, and the
\* nearest integers outside (MC_C17 checks that the two tables agree)
KMin(kind) == CASE kind = "i8" -> JInt(-128) [] kind = "i16" -> JInt(-32768) [] kind = "i32" -> JWide(TRUE, D2p31)
                [] kind = "i64" -> JWide(TRUE, D2p63) [] OTHER -> JInt(0)
KMax(kind) == CASE kind = "i8" -> JInt(127) [] kind = "u8" -> JInt(255) [] kind = "i16" -> JInt(32767) [] kind = "u16" -> JInt(65535)
                [] kind = "i32" -> JInt(2147483647) [] kind = "u32" -> JWide(FALSE, D2p32m1)
                [] kind = "i64" -> JWide(FALSE, D2p63m1) [] kind = "u64" -> JWide(FALSE, D2p64m1)
KBelow(kind) == CASE kind = "i8" -> JInt(-129) [] kind = "i16" -> JInt(-32769) [] kind = "i32" -> JWide(TRUE, D2p31p1)
                  [] kind = "i64" -> JWide(TRUE, D2p63p1) [] OTHER -> JInt(-1)
KAbove(kind) == CASE kind = "i8" -> JInt(128) [] kind = "u8" -> JInt(256) [] kind = "i16" -> JInt(32768) [] kind = "u16" -> JInt(65536)
                  [] kind = "i32" -> JWide(FALSE, D2p31) [] kind = "u32" -> JWide(FALSE, D2p32)
                  [] kind = "i64" -> JWide(FALSE, D2p63) [] kind = "u64" -> JWide(FALSE, D2p64)
IntKinds == {"i8", "u8", "i16", "u16", "i32", "u32", "i64", "u64"}
\* typed integer value <-> JSON integer
IntV(j) == IF j[1] = "int" THEN <<"i", j[2]>> ELSE <<"iw", j[2], j[3]>>
IntJ(v) == IF v[1] = "i" THEN JInt(v[2]) ELSE JWide(v[2], v[3])
\* is every integer of the document an int64_t (BSON has no other integer type)
RECURSIVE AllInt64(_)
AllInt64(j) == CASE j[1] = "wide" -> InRange("i64", j)
                 [] j[1] = "arr" -> \A i \in 1..Len(j[2]) : AllInt64(j[2][i])
                 [] j[1] = "obj" -> \A k \in DOMAIN j[2] : AllInt64(j[2][k])
                 [] OTHER -> TRUE

HexDigit(k) == IF k < 10 THEN 48 + k ELSE 55 + k          \* upper case, as in the [BI bitset] examples
\* [BI bitset]: bit i of the bitset is the i-th bit of the byte string counted from the most
\* significant bit of the first byte (std::bitset<8>(42) -> 0x54; std::bitset<70>(2^64-1) ->
\* "FFFFFFFFFFFFFFFF00"); the last byte is padded with zero bits
BitAt(b, i) == IF i <= Len(b) THEN b[i] ELSE 0
Nibble(b, k) == (8 * BitAt(b, (4 * k) + 1)) + (4 * BitAt(b, (4 * k) + 2)) + (2 * BitAt(b, (4 * k) + 3)) + BitAt(b, (4 * k) + 4)
NBytes(n) == (n + 7) \div 8
BitsHex(b) == [k \in 1..(2 * NBytes(Len(b))) |-> HexDigit(Nibble(b, k - 1))]
HexVal(c) == CASE c >= 48 /\ c <= 57 -> c - 48 [] c >= 65 /\ c <= 70 -> c - 55 [] c >= 97 /\ c <= 102 -> c - 87 [] OTHER -> 16
HexBit(s, i) == LET v == HexVal(s[((i - 1) \div 4) + 1])  p == (i - 1) % 4
                IN (v \div (CASE p = 0 -> 8 [] p = 1 -> 4 [] p = 2 -> 2 [] p = 3 -> 1)) % 2

(****************************** ToJ ***************************************)
RECURSIVE ToJ(_, _)
\* which members of a class value are written: a mandatory member always; a non-mandatory one
\* unless it is an empty optional / null pointer ([GEN A3]: field4..6 -> null, field10..12 omitted;
\* [JT] worked example: "if (val.optional) j.try_emplace(...)")
Written(m, v) == m.m \/ ~(m.t[1] \in {"opt", "ptr"} /\ v = <<"none">>)
StructJ(ms, vs) == LET idx == {i \in 1..Len(ms) : Written(ms[i], vs[i])}
                   IN JObj([k \in {ms[i].n : i \in idx} |-> LET i == CHOOSE i \in idx : ms[i].n = k IN ToJ(ms[i].t, vs[i])])
ToJ(T, v) ==
  CASE T[1] = "int" -> IntJ(v)
    [] T[1] = "flt" -> JDec(v[2], v[3])                                                 \* a floating point number (never an integer: 3.0 stays floating point)
    [] T[1] = "bool" -> JBool(v[2])
    [] T[1] = "str" -> JStr(v[2])
    [] T[1] \in {"vec", "arr"} -> JArr([i \in 1..Len(v[2]) |-> ToJ(T[2], v[2][i])])
    [] T[1] = "map" -> JObj([k \in DOMAIN v[2] |-> ToJ(T[2], v[2][k])])
    \* [BI "std::map with integer key"]: {1:"foo"} -> {"1":"foo"}
    [] T[1] = "imap" -> JObj([k \in {IntStr(n) : n \in DOMAIN v[2]} |-> ToJ(T[2], v[2][CHOOSE n \in DOMAIN v[2] : IntStr(n) = k])])
    [] T[1] \in {"opt", "ptr"} -> IF v = <<"none">> THEN JNull ELSE ToJ(T[2], v[2])     \* [GEN A3], [BI variant example: nullptr -> null]
    [] T[1] \in {"tup", "pair"} -> JArr([i \in 1..Len(T[2]) |-> ToJ(T[2][i], v[2][i])])
    [] T[1] \in {"var", "poly"} -> ToJ(T[2][v[2]], v[3])                                \* [GEN A4, A7]: the alternative's own image
    [] T[1] = "enum" -> JStr(T[2][v[2]])                                                \* [GEN (9),(10)]
    [] T[1] = "struct" -> StructJ(T[2], v[2])
    [] T[1] = "bits" -> JStr(BitsHex(v[2]))
    [] T[1] = "secs" -> IF v[1] = "i" THEN JInt(v[2]) ELSE JWide(v[2], v[3])            \* [BI duration], [GEN A2 "generated": 1514862245]

(****************************** Is ****************************************)
(* [JT]/[IS]: is() "indicates whether j satisfies the requirements of T"   *)
(* and drives the type selection of variants and polymorphic pointers.     *)
RECURSIVE Is(_, _)
Is(T, j) ==
  CASE T[1] = "int" -> IsIntJ(j) /\ InRange(T[2], j)                        \* [IS (4),(5)]
    [] T[1] = "flt" -> j[1] = "dec"                                          \* [IS (6)]: "floating point" (example (6): an integer is not)
    [] T[1] = "bool" -> j[1] = "bool"
    [] T[1] = "str" -> j[1] = "str"
    [] T[1] = "vec" -> IsArr(j) /\ \A i \in 1..Len(j[2]) : Is(T[2], j[2][i])           \* [IS] is<X<T>>
    [] T[1] = "arr" -> IsArr(j) /\ Len(j[2]) = T[3] /\ \A i \in 1..Len(j[2]) : Is(T[2], j[2][i])
    [] T[1] = "map" -> IsObj(j) /\ \A k \in DOMAIN j[2] : Is(T[2], j[2][k])            \* [IS] is<X<string,T>>
    [] T[1] = "imap" -> IsObj(j) /\ \A k \in DOMAIN j[2] : KeyAsInt(k)[1] = "int" /\ Is(T[2], j[2][k])
    [] T[1] \in {"opt", "ptr"} -> IsNull(j) \/ Is(T[2], j)
    [] T[1] \in {"tup", "pair"} -> IsArr(j) /\ Len(j[2]) >= Len(T[2]) /\ \A i \in 1..Len(T[2]) : Is(T[2][i], j[2][i])
    [] T[1] \in {"var", "poly"} -> \E k \in 1..Len(T[2]) : Is(T[2][k], j)
    [] T[1] = "enum" -> j[1] = "str" /\ \E k \in 1..Len(T[2]) : T[2][k] = j[2]         \* [GEN A8]: "YELLOW" is detected to be a Color
    \* [GEN A4, A8]: "the type selection strategy is based on the presence of mandatory members"
    [] T[1] = "struct" -> IsObj(j) /\ \A i \in 1..Len(T[2]) : T[2][i].m => T[2][i].n \in DOMAIN j[2]
    [] T[1] = "bits" -> j[1] = "str"
    [] T[1] = "secs" -> j[1] = "int" \/ (j[1] = "wide" /\ InRange("i64", j))

(****************************** FromJ *************************************)
(* Result: <<"ok", v>> | <<"err">> (a conversion error must be reported)   *)
(*         | <<"dc">> (the documents do not fix the outcome).              *)
Ok(v) == <<"ok", v>>
Err == <<"err">>
DC == <<"dc">>
\* results of the parts of a container: an error anywhere is an error of the whole (whatever an
\* undetermined part does); otherwise one undetermined part makes the whole undetermined
Combine(rs) == IF \E i \in 1..Len(rs) : rs[i] = Err THEN Err
               ELSE IF \E i \in 1..Len(rs) : rs[i] = DC THEN DC
               ELSE Ok([i \in 1..Len(rs) |-> rs[i][2]])
WithTag(tag, r) == IF r[1] = "ok" THEN Ok(<<tag, r[2]>>) ELSE r

RECURSIVE FromJ(_, _)
FirstIs(Ts, j) == CHOOSE k \in 1..Len(Ts) : Is(Ts[k], j) /\ \A h \in 1..(k - 1) : ~Is(Ts[h], j)
\* [IS (10)]: an integer outside both int64_t and uint64_t is held by basic_json as a string tagged bigint ("is<std::string>() is
\* true and the string holds an integer value"): which alternative of a variant claims it is not addressed
Beyond64(j) == j[1] = "wide" /\ ~InRange("i64", j) /\ ~InRange("u64", j)
Select(Ts, j) ==  \* [GEN A8]: "checking each type in the variant from left to right, and stopping when is(j) returns true"
  IF Beyond64(j) THEN DC
  ELSE IF \A k \in 1..Len(Ts) : ~Is(Ts[k], j)
       THEN (IF j[1] = "wide" /\ ~InRange("i64", j) /\ (\E k \in 1..Len(Ts) : Ts[k] = TStr)
             THEN DC       \* an integer above INT64_MAX travels in some formats only as a high-precision number / bigint string ([IS (10)]): whether a string alternative claims it is not addressed
             ELSE Err)
  ELSE LET k == FirstIs(Ts, j)  r == FromJ(Ts[k], j)
       IN IF r[1] = "ok" THEN Ok(<<"alt", k, r[2]>>)
          ELSE DC      \* the selected alternative cannot be read: whether the next one is tried is not addressed
StructFrom(ms, j) ==
  IF ~IsObj(j) THEN Err                                           \* wrong container kind; [JT] example: not_map
  ELSE Combine([i \in 1..Len(ms) |->
         IF ms[i].n \in DOMAIN j[2] THEN FromJ(ms[i].t, j[2][ms[i].n])
         ELSE IF ms[i].m THEN Err                                 \* [GEN (1)]: mandatory names are "required ... be present in the JSON"; [JT] example: missing_required_member
         ELSE Ok(ms[i].d)])                                       \* "the rest can have default values"
       \* members of j that the class does not declare are not looked at ([JT] example reads by name only)
FromJ(T, j) ==
  CASE T[1] = "int" ->
         IF IsIntJ(j) THEN (IF InRange(T[2], j) THEN Ok(IntV(j)) ELSE DC)                \* out of range: [AS] examples (2),(5) show wrap-around (2147483648 -> int32_t -2147483648, -10 -> uint32_t 4294967286), [IS] says "not the same": nothing says error
         ELSE IF j[1] = "dec" THEN DC                                                    \* [AS] example (6): 10.5 -> int32_t 10
         ELSE IF j[1] = "bool" THEN DC                                                   \* [AS] example (8): as<int>() of true
         ELSE IF j[1] = "str" /\ LooksNumeric(j[2]) THEN DC                              \* [AS] example (9): numbers held in strings convert
         ELSE Err                                                                       \* null, other strings, arrays, objects
    [] T[1] = "flt" ->
         IF j[1] = "dec" THEN (IF T[2] = "f32" /\ ~FloatExact(j[2], j[3]) THEN DC          \* a number that float cannot represent: rounding is not addressed
                               ELSE Ok(<<"f", j[2], j[3]>>))
         ELSE IF IsIntJ(j) THEN DC                                                       \* number <-> number conversions are shown by [AS] (6) only in the other direction
         ELSE IF j[1] = "bool" THEN DC
         ELSE IF j[1] = "str" /\ LooksNumeric(j[2]) THEN DC                              \* [AS] example (9): "10.5" -> double 10.5
         ELSE Err                                                                       \* null, other strings, arrays, objects
    [] T[1] = "bool" ->
         IF j[1] = "bool" THEN Ok(<<"b", j[2]>>)
         ELSE IF IsIntJ(j) \/ j[1] = "dec" THEN DC                                                    \* number -> bool is not addressed
         ELSE Err
    [] T[1] = "str" ->
         IF j[1] = "str" THEN Ok(<<"s", j[2]>>)
         ELSE DC                                                                        \* [AS]: as<std::string>() "if value is string, returns value, otherwise returns result of dump"
    [] T[1] = "vec" ->
         IF ~IsArr(j) THEN Err                                                           \* [AS] as<X<T>>(): "if the json value is an array and each element is convertible to T, otherwise throws"
         ELSE WithTag("seq", Combine([i \in 1..Len(j[2]) |-> FromJ(T[2], j[2][i])]))
    [] T[1] = "arr" ->
         IF ~IsArr(j) \/ Len(j[2]) < T[3] THEN Err                                       \* too few elements: nothing to fill the array with
         ELSE IF Len(j[2]) > T[3] THEN (IF \E i \in 1..T[3] : FromJ(T[2], j[2][i]) = Err THEN Err ELSE DC)   \* surplus elements: not addressed
         ELSE WithTag("seq", Combine([i \in 1..T[3] |-> FromJ(T[2], j[2][i])]))
    [] T[1] = "map" ->
         IF ~IsObj(j) THEN Err                                                           \* [AS] as<X<std::string,T>>()
         ELSE LET ks == SetToSeq(DOMAIN j[2])
                  r == Combine([i \in 1..Len(ks) |-> FromJ(T[2], j[2][ks[i]])])
              IN IF r[1] = "ok" THEN Ok(<<"map", [k \in DOMAIN j[2] |-> r[2][CHOOSE i \in 1..Len(ks) : ks[i] = k]]>>) ELSE r
    [] T[1] = "imap" ->
         IF ~IsObj(j) THEN Err
         ELSE LET ks == SetToSeq(DOMAIN j[2])
                  kr == [i \in 1..Len(ks) |-> KeyAsInt(ks[i])]
                  r == Combine([i \in 1..Len(ks) |-> IF kr[i][1] = "no" THEN Err             \* a name that is no number cannot become an integer key
                                                   ELSE IF kr[i][1] = "num" THEN (IF FromJ(T[2], j[2][ks[i]]) = Err THEN Err ELSE DC)   \* "01", "-0": not addressed
                                                   ELSE FromJ(T[2], j[2][ks[i]])])
              IN IF r[1] = "ok" THEN Ok(<<"imap", [n \in {kr[i][2] : i \in 1..Len(ks)} |-> r[2][CHOOSE i \in 1..Len(ks) : kr[i][2] = n]]>>) ELSE r
    [] T[1] \in {"opt", "ptr"} ->
         IF IsNull(j) THEN Ok(<<"none">>)                                                \* [GEN A3]: null -> empty optional / null pointer
         ELSE WithTag("some", FromJ(T[2], j))
    [] T[1] = "tup" ->
         IF ~IsArr(j) \/ Len(j[2]) < Len(T[2]) THEN Err                                  \* wrong container kind / too few elements for a tuple
         ELSE IF Len(j[2]) > Len(T[2]) THEN (IF \E i \in 1..Len(T[2]) : FromJ(T[2][i], j[2][i]) = Err THEN Err ELSE DC)   \* "fixed size": surplus not addressed
         ELSE WithTag("tup", Combine([i \in 1..Len(T[2]) |-> FromJ(T[2][i], j[2][i])]))
    [] T[1] = "pair" ->
         IF ~IsArr(j) \/ Len(j[2]) < 2 THEN Err
         ELSE IF Len(j[2]) > 2 THEN (IF \E i \in 1..2 : FromJ(T[2][i], j[2][i]) = Err THEN Err ELSE DC)
         ELSE WithTag("tup", Combine([i \in 1..2 |-> FromJ(T[2][i], j[2][i])]))
    [] T[1] = "var" -> Select(T[2], j)
    [] T[1] = "poly" -> IF IsNull(j) THEN DC ELSE Select(T[2], j)                        \* null for a polymorphic pointer: not addressed
    [] T[1] = "enum" ->
         IF j[1] = "str" /\ \E k \in 1..Len(T[2]) : T[2][k] = j[2]
         THEN Ok(<<"en", CHOOSE k \in 1..Len(T[2]) : T[2][k] = j[2]>>)
         ELSE Err                                                                       \* no enumerator has that serialized name / not a string
    [] T[1] = "struct" -> WithTag("rec", StructFrom(T[2], j))
    [] T[1] = "bits" ->
         IF j[1] = "str" THEN
            LET s == j[2]  n == T[2] IN
            IF \E i \in 1..Len(s) : HexVal(s[i]) = 16 THEN Err                           \* not base16 text
            ELSE IF Len(s) = 2 * NBytes(n) /\ (\A i \in 1..Len(s) : s[i] < 97) /\ (\A i \in (n + 1)..(4 * Len(s)) : HexBit(s, i) = 0)
                 THEN Ok(<<"bits", [i \in 1..n |-> HexBit(s, i)]>>)
                 ELSE IF Len(s) < 2 * NBytes(n) THEN Err                                \* fewer bytes than the bitset has bits for: the shape does not fit
                 ELSE DC                                                                \* longer text / lower case / set padding bits: not addressed
         ELSE IF IsIntJ(j) THEN DC                                                       \* [BI bitset] "can decode from integers": bit order not given
         ELSE Err
    [] T[1] = "secs" ->
         IF j[1] = "int" THEN Ok(<<"i", j[2]>>)
         ELSE IF j[1] = "wide" /\ InRange("i64", j) THEN Ok(<<"iw", j[2], j[3]>>)          \* a count of seconds beyond 2^31 (the rep is 64 bits wide)
         ELSE IF j[1] \in {"bool", "wide", "dec"} \/ (j[1] = "str" /\ LooksNumeric(j[2])) THEN DC
         ELSE Err

(************************* bounded value universes *************************)
\* U: [ints, bools, strs, maxlen, keys, ikeys, bits] - base domains for enumeration
RECURSIVE ProdSeq(_)
ProdSeq(Ss) == IF Ss = <<>> THEN {<<>>} ELSE { <<h>> \o t : h \in Ss[1], t \in ProdSeq(Tail(Ss)) }
RECURSIVE SeqsUpTo(_, _)
SeqsUpTo(S, n) == IF n = 0 THEN {<<>>} ELSE LET P == SeqsUpTo(S, n - 1) IN P \cup { Append(s, x) : s \in {p \in P : Len(p) = n - 1}, x \in S }
\* integers of a kind: the legacy kinds int / uint8_t (used all over the family) range over U.ints; the other kinds over their
\* own boundary values (U.edge = "all": smallest, -1, 0, largest, and for uint64_t also INT64_MAX and INT64_MAX + 1;
\* U.edge = "one": the largest value only - seeds)
KindInts(kind, U) ==
  IF kind \in {"i32", "u8"} THEN { JInt(n) : n \in {m \in U.ints : InRange(kind, JInt(m))} }
  ELSE IF U.edge = "one" THEN { IF kind = "u64" THEN KMax("i64") ELSE KMax(kind) }      \* (a seed every format can carry: BSON has no unsigned 64 bit integer)
  ELSE { j \in {KMin(kind), JInt(-1), JInt(0), KMax(kind)} \cup (IF kind = "u64" THEN {KMax("i64"), KAbove("i64")} ELSE {}) : InRange(kind, j) }
RECURSIVE Vals(_, _)
\* a variant value round-trips only if no earlier alternative claims its image ([GEN A8]: "types that
\* are more constrained should appear to the left"): such values are not in the universe
Canonical(Ts, k, v) == \A h \in 1..(k - 1) : ~Is(Ts[h], ToJ(Ts[k], v))
Vals(T, U) ==
  CASE T[1] = "int" -> { IntV(j) : j \in KindInts(T[2], U) }
    [] T[1] = "flt" -> { <<"f", x[1], x[2]>> : x \in {y \in U.flts : T[2] = "f64" \/ FloatExact(y[1], y[2])} }
    [] T[1] = "bool" -> { <<"b", x>> : x \in U.bools }
    [] T[1] = "str" -> { <<"s", s>> : s \in U.strs }
    [] T[1] = "vec" -> { <<"seq", s>> : s \in SeqsUpTo(Vals(T[2], U), U.maxlen) }
    [] T[1] = "arr" -> { <<"seq", s>> : s \in ProdSeq([i \in 1..T[3] |-> Vals(T[2], U)]) }
    [] T[1] = "map" -> { <<"map", f>> : f \in UNION { [K -> Vals(T[2], U)] : K \in SUBSET U.keys } }
    [] T[1] = "imap" -> { <<"imap", f>> : f \in UNION { [K -> Vals(T[2], U)] : K \in SUBSET U.ikeys } }
    [] T[1] \in {"opt", "ptr"} -> { <<"none">> } \cup { <<"some", v>> : v \in Vals(T[2], U) }
    [] T[1] \in {"tup", "pair"} -> { <<"tup", s>> : s \in ProdSeq([i \in 1..Len(T[2]) |-> Vals(T[2][i], U)]) }
    [] T[1] \in {"var", "poly"} -> UNION { { <<"alt", k, v>> : v \in {w \in Vals(T[2][k], U) : Canonical(T[2], k, w)} } : k \in 1..Len(T[2]) }
    [] T[1] = "enum" -> { <<"en", k>> : k \in 1..Len(T[2]) }
    [] T[1] = "struct" -> { <<"rec", s>> : s \in ProdSeq([i \in 1..Len(T[2]) |-> Vals(T[2][i].t, U)]) }
    [] T[1] = "bits" -> { <<"bits", b>> : b \in {c \in U.bits : Len(c) = T[2]} }
    \* (beyond 2^31: 9223372037 s = the first count whose nanoseconds exceed int64; 2^34 = where the MessagePack timestamp 64 ends; year 9999)
    [] T[1] = "secs" -> { <<"i", n>> : n \in U.ints }
                        \cup { <<"iw", FALSE, <<57,50,50,51,51,55,50,48,51,55>>>>, <<"iw", TRUE, <<57,50,50,51,51,55,50,48,51,55>>>>, <<"iw", FALSE, <<49,55,49,55,57,56,54,57,49,56,52>>>>,
                               <<"iw", FALSE, <<50,53,51,52,48,50,51,48,48,56,48,48>>>>, <<"iw", FALSE, <<52,50,57,52,57,54,55,50,57,54>>>> }

(**************** wire form of typed values (for emission) *****************)
RECURSIVE VWire(_)
VWire(v) ==
  CASE v[1] \in {"seq", "tup", "rec"} -> <<v[1], [i \in 1..Len(v[2]) |-> VWire(v[2][i])]>>
    [] v[1] \in {"map", "imap"} -> LET ks == SetToSeq(DOMAIN v[2]) IN <<v[1], [i \in 1..Len(ks) |-> <<ks[i], VWire(v[2][ks[i]])>>]>>
    [] v[1] = "some" -> <<"some", VWire(v[2])>>
    [] v[1] = "alt" -> <<"alt", v[2], VWire(v[3])>>
    [] OTHER -> v

(**************** does a type mention one of the given constructors ********)
RECURSIVE Mentions(_, _)
Mentions(T, tags) ==
  T[1] \in tags \/
  CASE T[1] \in {"vec", "arr", "map", "imap", "opt", "ptr"} -> Mentions(T[2], tags)
    [] T[1] \in {"tup", "pair", "var", "poly"} -> \E i \in 1..Len(T[2]) : Mentions(T[2][i], tags)
    [] T[1] = "struct" -> \E i \in 1..Len(T[2]) : Mentions(T[2][i].t, tags)
    [] OTHER -> FALSE
=============================================================================
