------------------------------- MODULE BinTags -------------------------------
(***************************************************************************)
(* The TAGGED part of the binary data model (C06) and its image in each of *)
(* the four binary formats.  Written from the documents, not from the      *)
(* implementation:                                                         *)
(*   RFC 8949 section 3.4 (tags 0, 1, 2, 3, 4, 5, 21, 22, 23, 32, 33, 34)  *)
(*   RFC 8746 section 2 (typed array tags 64..87)                          *)
(*   cbor.schmorp.de/stringref (tags 25 / 256; decoder in Cbor.tla)        *)
(*   MessagePack specification, "Timestamp extension type"                 *)
(*   UBJSON draft 12, "high-precision" numeric type                        *)
(*   bsonspec.org 1.1 (x09 UTC datetime, x05 binary)                       *)
(*   doc/ref/corelib/semantic_tag.md, doc/ref/cbor/cbor.md ("Tag handling  *)
(*   and extensions" + the mapping table), doc/ref/cbor/typed_arrays.md,   *)
(*   doc/ref/cbor/cbor_options.md, doc/ref/msgpack/msgpack.md,             *)
(*   doc/ref/ubjson/ubjson.md, doc/ref/bson/bson.md (the mapping tables).  *)
(*                                                                         *)
(* Values: the shared data model of Cbor.tla's header, plus                *)
(*   <<"tagged", tag, base>>   a jsoncons value that carries a semantic    *)
(*        tag; tag \in TagNames; base = <<"tstr",_>> | <<"bstr",_>> |      *)
(*        <<"uint",_>> | <<"nint",_>> | <<"f64",_>>.                       *)
(*                                                                         *)
(* For a format f and a tagged leaf, Class(f, tag, base) is one of         *)
(*   "in"    the format has a counterpart and the jsoncons reference page  *)
(*           promises it: the bytes carry the counterpart (RefLeaf) and    *)
(*           decoding returns the same tag and an equal value (SameValue)  *)
(*   "ts"    MessagePack timestamp: the bytes are a timestamp extension of *)
(*           the same instant, and the decoded value is the image that     *)
(*           msgpack.md documents for the timestamp format actually used   *)
(*   "hpn"   UBJSON high-precision number: the bytes are an 'H' value with *)
(*           the same numeric value; decoded: a string tagged bigint or    *)
(*           bigdec (ubjson.md lists both for 'H') of the same value       *)
(*   "plain" no counterpart: the untagged value must round trip (for big   *)
(*           numbers in MessagePack / BSON: "travel as plain strings");    *)
(*           the tag of the decoded value is not constrained               *)
(*   "out"   outside the format's domain: the encoder must refuse          *)
(*   "dc"    the documents are silent or contradictory: not compared       *)
(*           (each dc clause below names its reason)                       *)
(***************************************************************************)
EXTENDS BinModel
N == INSTANCE BigNat
U == INSTANCE Ubjson
C == INSTANCE Cbor

TagNames == {"bigint", "bigdec", "bigfloat", "datetime", "epoch_second", "epoch_milli", "epoch_nano",
             "uri", "base64", "base64url", "base16"}
EpochTags == {"epoch_second", "epoch_milli", "epoch_nano"}

-----------------------------------------------------------------------------
(* Unbounded signed integers <<neg, nat>> over BigNat (TLC integers are    *)
(* 32-bit).  Zero is <<FALSE, <<>> >>.                                     *)
SInt(neg, nat) == IF nat = <<>> THEN <<FALSE, <<>>>> ELSE <<neg, nat>>
SZero == <<FALSE, <<>>>>
SNat(n) == SInt(FALSE, N!FromSmall(n))
SAdd(a, b) == IF a[1] = b[1] THEN SInt(a[1], N!Add(a[2], b[2]))
              ELSE IF N!Le(b[2], a[2]) THEN SInt(a[1], N!Sub(a[2], b[2]))
              ELSE SInt(b[1], N!Sub(b[2], a[2]))
SNeg(a) == SInt(~a[1], a[2])
SLe(a, b) == CASE a[1] /\ ~b[1] -> TRUE
               [] ~a[1] /\ b[1] -> FALSE
               [] ~a[1] /\ ~b[1] -> N!Le(a[2], b[2])
               [] OTHER -> N!Le(b[2], a[2])
SMulSmall(a, d) == SInt(a[1], N!MulSmall(a[2], d))
P31 == N!Pow2(31)
P63 == N!Pow2(63)
P64 == N!Pow2(64)
MinusOne == <<TRUE, <<1>>>>
InInt32(a) == SLe(<<TRUE, P31>>, a) /\ SLe(a, SAdd(<<FALSE, P31>>, MinusOne))
InInt64(a) == SLe(<<TRUE, P63>>, a) /\ SLe(a, SAdd(<<FALSE, P63>>, MinusOne))
InCborInt(a) == SLe(<<TRUE, P64>>, a) /\ SLe(a, SAdd(<<FALSE, P64>>, MinusOne))      \* major types 0 / 1: -2^64 .. 2^64-1
\* the integer denoted by <<"uint", bs>> / <<"nint", bs>> (big-endian magnitude; nint n is -1-n)
NatOf(bs) == N!FromBase(bs, 256)
IntOf(v) == IF v[1] = "uint" THEN SInt(FALSE, NatOf(v[2])) ELSE SInt(TRUE, N!Add(NatOf(v[2]), <<1>>))
IsInt(v) == v[1] = "uint" \/ v[1] = "nint"
BigUint(v) == v[1] = "uint" /\ Len(v[2]) = 8 /\ v[2][1] >= 128                       \* above INT64_MAX

-----------------------------------------------------------------------------
(* Number strings.                                                         *)
IsDigit(c) == c >= 48 /\ c <= 57
\* decimal digits (code units, most significant first) -> BigNat.  BigNat's limbs are base 10^4, so four digits ARE one limb (O(n);
\* BigNat!FromDec multiplies by ten per digit, O(n^2), which is too slow for the 600-digit numbers of the 255 / 256 byte bignums)
RECURSIVE LimbsOf(_, _, _)
LimbsOf(ds, hi, acc) ==
  IF hi < 1 THEN acc
  ELSE LET d(k) == IF k >= 1 THEN ds[k] - 48 ELSE 0 IN
       LimbsOf(ds, hi - 4, Append(acc, (1000 * d(hi - 3)) + (100 * d(hi - 2)) + (10 * d(hi - 1)) + d(hi)))
FromDec(ds) == N!Norm(LimbsOf(ds, Len(ds), <<>>))
AllDigits(s) == s # <<>> /\ \A k \in 1..Len(s) : IsDigit(s[k])
First(s, S) == LET ks == {k \in 1..Len(s) : s[k] \in S} IN IF ks = {} THEN 0 ELSE CHOOSE k \in ks : \A m \in ks : k <= m
\* "[-]digits" : <<"ok", signed integer>> | <<"bad">>     (semantic_tag bigint: an integer as a decimal string)
DecInt(s) == LET neg == s # <<>> /\ s[1] = 45
                 ds == IF neg THEN Tail(s) ELSE s
             IN IF AllDigits(ds) THEN <<"ok", SInt(neg, FromDec(ds))>> ELSE <<"bad">>
\* "[+-]digits"
ExpInt(s) == LET sg == s # <<>> /\ (s[1] = 43 \/ s[1] = 45)
                 ds == IF sg THEN Tail(s) ELSE s
             IN IF AllDigits(ds) THEN <<"ok", SInt(sg /\ s[1] = 45, FromDec(ds))>> ELSE <<"bad">>
RECURSIVE TrailPad(_, _)
TrailPad(s, k) == IF k >= 1 /\ s[k] = 61 THEN TrailPad(s, k - 1) ELSE Len(s) - k          \* number of trailing '='
RECURSIVE TrailZeros(_, _)
TrailZeros(ds, k) == IF k >= 1 /\ ds[k] = 48 THEN TrailZeros(ds, k - 1) ELSE Len(ds) - k
(* Decimal numbers "[-]digits[.digits][(e|E)[+-]digits]":                  *)
(* <<"ok", neg, all digits, exponent of the last digit>> | <<"bad">>.      *)
(* The VALUE is (+-) digits x 10^exponent - RFC 8949 3.4.4: "decimal       *)
(* fractions ... m x 10^e" -, so two spellings are the same number iff     *)
(* their canonical forms (no leading / trailing zero digits) are equal.    *)
DecNum(s) ==
  LET epos == First(s, {101, 69})
      mant == IF epos = 0 THEN s ELSE SubSeq(s, 1, epos - 1)
      ex == IF epos = 0 THEN <<"ok", SZero>> ELSE ExpInt(SubSeq(s, epos + 1, Len(s)))
      neg == mant # <<>> /\ mant[1] = 45
      m1 == IF neg THEN Tail(mant) ELSE mant
      dot == First(m1, {46})
      ip == IF dot = 0 THEN m1 ELSE SubSeq(m1, 1, dot - 1)
      fp == IF dot = 0 THEN <<>> ELSE SubSeq(m1, dot + 1, Len(m1))
  IN IF ~AllDigits(ip) \/ (dot # 0 /\ ~AllDigits(fp)) \/ ex[1] = "bad" THEN <<"bad">>
     ELSE <<"ok", neg, ip \o fp, SAdd(ex[2], SInt(TRUE, N!FromSmall(Len(fp))))>>
Canon10(neg, ds, e) ==
  LET d1 == N!StripLeadZeros(ds)
      tz == TrailZeros(d1, Len(d1))
  IN IF d1 = <<48>> THEN <<"zero">> ELSE <<"num", neg, SubSeq(d1, 1, Len(d1) - tz), SAdd(e, SNat(tz))>>
DecCanon(s) == LET p == DecNum(s) IN IF p[1] = "bad" THEN <<"bad">> ELSE Canon10(p[2], p[3], p[4])

(* Hexadecimal floating-point strings (semantic_tag bigfloat), cbor.md tag *)
(* 5: "(optional) plus or minus sign, 0x or 0X, nonempty sequence of       *)
(* hexadecimal digits optionally containing a decimal-point character,     *)
(* (optional) p or P followed with optional minus or plus sign and         *)
(* nonempty sequence of DECIMAL digits" (encode) - but for decoding the    *)
(* same page says the exponent is a "nonempty sequence of HEXADECIMAL      *)
(* digits".  The two sentences contradict each other, so an exponent is    *)
(* read in either radix (rd = 10 or 16) and a comparison holds if it holds *)
(* for some choice of radices.  VALUE = (+-) mantissa x 2^exponent (RFC    *)
(* 8949 3.4.4 bigfloat); canonical form: odd mantissa.                     *)
HexVal(c) == IF c >= 48 /\ c <= 57 THEN c - 48 ELSE IF c >= 97 /\ c <= 102 THEN c - 87 ELSE IF c >= 65 /\ c <= 70 THEN c - 55 ELSE 99
AllHex(s) == s # <<>> /\ \A k \in 1..Len(s) : HexVal(s[k]) < 16
RECURSIVE HexDigits(_, _, _)
HexDigits(s, k, acc) == IF k > Len(s) THEN acc ELSE HexDigits(s, k + 1, Append(acc, HexVal(s[k])))
HexNat(s) == N!FromBase(HexDigits(s, 1, <<>>), 16)
ExpRd(s, rd) == LET sg == s # <<>> /\ (s[1] = 43 \/ s[1] = 45)
                    ds == IF sg THEN Tail(s) ELSE s
                IN IF rd = 10 THEN (IF AllDigits(ds) THEN <<"ok", SInt(sg /\ s[1] = 45, FromDec(ds))>> ELSE <<"bad">>)
                   ELSE (IF AllHex(ds) THEN <<"ok", SInt(sg /\ s[1] = 45, HexNat(ds))>> ELSE <<"bad">>)
HexFloat(s, rd) ==
  LET sg == s # <<>> /\ (s[1] = 43 \/ s[1] = 45)
      neg == sg /\ s[1] = 45
      s1 == IF sg THEN Tail(s) ELSE s
  IN IF Len(s1) < 3 \/ s1[1] # 48 \/ (s1[2] # 120 /\ s1[2] # 88) THEN <<"bad">>
     ELSE LET body == SubSeq(s1, 3, Len(s1))
              ppos == First(body, {112, 80})
              mant == IF ppos = 0 THEN body ELSE SubSeq(body, 1, ppos - 1)
              ex == IF ppos = 0 THEN <<"ok", SZero>> ELSE ExpRd(SubSeq(body, ppos + 1, Len(body)), rd)
              dot == First(mant, {46})
              ip == IF dot = 0 THEN mant ELSE SubSeq(mant, 1, dot - 1)
              fp == IF dot = 0 THEN <<>> ELSE SubSeq(mant, dot + 1, Len(mant))
          IN IF ~AllHex(ip \o fp) \/ ex[1] = "bad" THEN <<"bad">>
             ELSE <<"ok", neg, HexNat(ip \o fp), SAdd(ex[2], SInt(TRUE, N!FromSmall(4 * Len(fp))))>>
RECURSIVE Canon2(_, _, _)
Canon2(neg, nat, e) == IF nat = <<>> THEN <<"zero">>
                       ELSE IF nat[1] % 2 = 0 THEN Canon2(neg, N!DivSmall(nat, 2)[1], SAdd(e, SNat(1)))     \* the base 10^4 is even: parity = parity of the lowest limb
                       ELSE <<"num", neg, nat, e>>
HexCanon(s, rd) == LET p == HexFloat(s, rd) IN IF p[1] = "bad" THEN <<"bad">> ELSE Canon2(p[2], p[3], p[4])
Radices == {10, 16}

-----------------------------------------------------------------------------
(* Instants (MessagePack timestamps): nanoseconds since the epoch.         *)
UnitNanos(tag) == CASE tag = "epoch_second" -> <<1000, 1000, 1000>> [] tag = "epoch_milli" -> <<1000, 1000, 1>> [] OTHER -> <<1, 1, 1>>
Scale(a, tag) == LET u == UnitNanos(tag) IN SMulSmall(SMulSmall(SMulSmall(a, u[1]), u[2]), u[3])
Billion == N!Mul(<<0, 10>>, <<0, 1>>)              \* 10^5 * 10^4
\* floor(I / 10^9) fits the signed 64-bit seconds field of timestamp 96  <=>  -2^63 * 10^9 <= I < 2^63 * 10^9
InstantFits(i) == SLe(<<TRUE, N!Mul(P63, Billion)>>, i) /\ SLe(i, SAdd(<<FALSE, N!Mul(P63, Billion)>>, MinusOne))
\* the integer of an epoch-tagged base value (integer, or decimal-integer string), <<"bad">> otherwise
EpochInt(base) == IF IsInt(base) THEN <<"ok", IntOf(base)>> ELSE IF base[1] = "tstr" THEN DecInt(base[2]) ELSE <<"bad">>

-----------------------------------------------------------------------------
(* Class(f, tag, base): see the header.  tag = "none" for untagged leaves. *)
\* contents that RFC 8949 3.4 prescribes for the text tags (a string outside them is outside the tag's domain: dc)
IsAlpha(c) == (c >= 65 /\ c <= 90) \/ (c >= 97 /\ c <= 122)
IsDateTime(s) == /\ Len(s) >= 20 /\ s[5] = 45 /\ s[8] = 45 /\ s[11] \in {84, 116} /\ s[14] = 58 /\ s[17] = 58        \* RFC 3339 date "T" time offset
                 /\ \A k \in {1, 2, 3, 4, 6, 7, 9, 10, 12, 13, 15, 16, 18, 19} : IsDigit(s[k])
                 /\ (s[Len(s)] \in {90, 122} \/ (Len(s) >= 25 /\ s[Len(s) - 5] \in {43, 45} /\ s[Len(s) - 2] = 58))
IsUri(s) == LET k == First(s, {58}) IN k > 1 /\ IsAlpha(s[1]) /\ \A i \in 1..(k - 1) : IsAlpha(s[i]) \/ IsDigit(s[i]) \/ s[i] \in {43, 45, 46}
IsBase64Text(tag, s) == LET extra == IF tag = "base64url" THEN {45, 95} ELSE {43, 47}                                    \* RFC 4648 sections 5 / 4
                            pad == TrailPad(s, Len(s)) IN
                        pad <= 2 /\ \A i \in 1..(Len(s) - pad) : IsAlpha(s[i]) \/ IsDigit(s[i]) \/ s[i] \in extra
ClassCbor(tag, base) ==
  CASE tag = "none" -> "plain"
    [] tag = "bigint" -> IF base[1] = "tstr" /\ DecInt(base[2])[1] = "ok" THEN "in" ELSE "dc"              \* tags 2 / 3; other strings: no document says what a bigint string may look like
    [] tag = "bigdec" ->
         IF base[1] # "tstr" THEN "dc"
         ELSE LET p == DecNum(base[2]) IN
              IF p[1] = "bad" THEN "dc"                                       \* (same: spelling outside the plain decimal grammar)
              ELSE LET c == Canon10(p[2], p[3], p[4]) IN
                   IF InInt64(p[4]) THEN "in"                                 \* tag 4 [e, m]: e an integer (major type 0 / 1), m integer or bignum
                   ELSE IF c[1] = "num" /\ ~InCborInt(c[4]) THEN "out"        \* no exponent of major type 0 / 1 can express it
                   ELSE "dc"                                                  \* expressible in CBOR only with an exponent that jsoncons' int64 interface cannot hold
    [] tag = "bigfloat" ->
         IF base[1] # "tstr" THEN "dc"
         ELSE IF \A rd \in Radices : LET p == HexFloat(base[2], rd) IN p[1] = "ok" /\ InInt64(p[4]) THEN "in"   \* tag 5 [e, m]
         ELSE "dc"                                                            \* not readable in both radices (see HexFloat), or exponent beyond int64
    [] tag = "datetime" -> IF base[1] = "tstr" /\ IsDateTime(base[2]) THEN "in" ELSE "dc"      \* tag 0: "standard date/time string" (RFC 3339); other text: a validating encoder may refuse it
    [] tag = "uri" -> IF base[1] = "tstr" /\ IsUri(base[2]) THEN "in" ELSE "dc"                \* tag 32: URI (RFC 3986: scheme ":" ...)
    [] tag \in {"base64", "base64url"} ->                                                     \* tags 34 / 33 (text in that alphabet), 22 / 21 (bytes)
         IF base[1] = "bstr" THEN "in" ELSE IF base[1] = "tstr" /\ IsBase64Text(tag, base[2]) THEN "in" ELSE "dc"
    [] tag = "base16" -> IF base[1] = "bstr" THEN "in" ELSE IF base[1] = "tstr" THEN "plain" ELSE "dc"   \* tag 23 (bytes); cbor.md lists no base16 text tag
    [] tag = "epoch_second" -> IF IsInt(base) \/ base[1] = "f64" THEN "in" ELSE "dc"           \* tag 1 on integer or float
    [] OTHER -> "dc"      \* epoch_milli / epoch_nano: CBOR has only seconds (tag 1) and cbor.md does not say how the other units are mapped
ClassMsgpack(tag, base) ==
  CASE tag \in EpochTags ->
         LET e == EpochInt(base) IN
         IF e[1] = "bad" THEN "dc"                                            \* doubles: msgpack.md maps timestamps to uint64 / string only
         ELSE IF InstantFits(Scale(e[2], tag)) THEN "ts" ELSE "out"           \* "timestamp 96 stores ... seconds in 64-bit signed int"
    [] OTHER -> "plain"
ClassUbjson(tag, base) ==
  CASE tag \in {"bigint", "bigdec"} ->
         IF base[1] = "tstr" /\ U!JsonNumber(base[2]) /\ (tag = "bigdec" \/ DecInt(base[2])[1] = "ok") THEN "hpn"
         ELSE "dc"                                                            \* draft 12: the 'H' payload is a number in JSON syntax; other spellings have no image
    [] OTHER -> "plain"
ClassBson(tag, base) ==
  CASE tag = "epoch_milli" -> IF IsInt(base) THEN (IF BigUint(base) THEN "out" ELSE "in") ELSE "dc"     \* x09 UTC datetime: int64 milliseconds
    [] tag \in {"epoch_second", "epoch_nano"} -> "dc"                         \* bson.md lists only "UTC datetime <-> int64 epoch_milli"
    [] OTHER -> IF BigUint(base) THEN "out" ELSE "plain"                      \* no unsigned 64-bit integers
Class(f, tag, base) == CASE f = "cbor" -> ClassCbor(tag, base) [] f = "msgpack" -> ClassMsgpack(tag, base)
                         [] f = "ubjson" -> ClassUbjson(tag, base) [] f = "bson" -> ClassBson(tag, base)

\* does some leaf of v have class c in format f
RECURSIVE AnyLeaf(_, _, _)
AnyLeaf(f, v, c) ==
  CASE v[1] = "arr" -> \E k \in 1..Len(v[2]) : AnyLeaf(f, v[2][k], c)
    [] v[1] = "map" -> \E k \in 1..Len(v[2]) : AnyLeaf(f, v[2][k][2], c)
    [] v[1] = "tagged" -> Class(f, v[2], v[3]) = c
    [] OTHER -> Class(f, "none", v) = c
\* verdict for a whole value: "dc" (not compared), "out" (must be refused), "cmp" (must round trip)
LineClass(f, v) == IF f = "bson" /\ v[1] # "map" THEN "dc"                    \* a BSON document is rooted in an object
                   ELSE IF AnyLeaf(f, v, "dc") THEN "dc"
                   ELSE IF AnyLeaf(f, v, "out") THEN "out" ELSE "cmp"

-----------------------------------------------------------------------------
(* Equality of a decoded base value with the original, per tag.            *)
Kind(x) == IF x[1] \in {"f16", "f32", "f64"} THEN "float" ELSE x[1]
SameValue(tag, base, db) ==
  CASE tag = "bigint" -> db[1] = "tstr" /\ DecInt(db[2]) = DecInt(base[2])
    [] tag = "bigdec" -> db[1] = "tstr" /\ DecCanon(db[2]) # <<"bad">> /\ DecCanon(db[2]) = DecCanon(base[2])
    [] tag = "bigfloat" -> db[1] = "tstr" /\ \E r1 \in Radices, r2 \in Radices :
                              HexCanon(db[2], r2) # <<"bad">> /\ HexCanon(db[2], r2) = HexCanon(base[2], r1)
    [] OTHER -> Kind(db) = Kind(base) /\ Equiv(db, base)                      \* BinModel: doubles bit for bit, any NaN as a NaN
\* numeric value of an untagged / plain big unsigned integer against a number string (UBJSON high-precision image)
SameBigUint(base, s) == DecInt(s) = <<"ok", IntOf(base)>>
U8Image(bytes) == <<"arr", [k \in 1..Len(bytes) |-> <<"uint", IF bytes[k] = 0 THEN <<>> ELSE <<bytes[k]>>>>]>>

Untag(d) == IF d[1] = "tagged" THEN d[3] ELSE d
TagOf(d) == IF d[1] = "tagged" THEN d[2] ELSE "none"

(* The decoded (library) value d of a leaf whose reference reading is r.   *)
LeafDec(f, tag, base, r, d) ==
  LET cls == Class(f, tag, base)  db == Untag(d)  dt == TagOf(d) IN
  CASE cls = "in" -> dt = tag /\ SameValue(tag, base, db)
    [] cls = "plain" ->
         IF f = "ubjson" /\ base[1] = "bstr" THEN db[1] \in {"arr", "bstr"} /\ Equiv(db, IF db[1] = "arr" THEN U8Image(base[2]) ELSE base)   \* no byte string type: array of byte values
         ELSE IF f = "ubjson" /\ BigUint(base) THEN db[1] = "tstr" /\ SameBigUint(base, db[2])       \* mapped to a high-precision number
         ELSE Kind(db) = Kind(base) /\ Equiv(db, base)
    [] cls = "hpn" -> dt \in {"bigint", "bigdec"} /\ db[1] = "tstr" /\ DecCanon(db[2]) # <<"bad">> /\ DecCanon(db[2]) = DecCanon(base[2])
    [] cls = "ts" ->      \* msgpack.md: timestamp 32 -> uint64 tagged seconds; timestamp 64 / 96 -> string tagged epoch_nanosecond
         IF Len(r) = 3 /\ r[1] = "uint" THEN dt = "epoch_second" /\ db = <<"uint", r[2]>>
         ELSE Len(r) = 3 /\ r[1] = "tstr" /\ dt = "epoch_nano" /\ db[1] = "tstr" /\ DecInt(db[2]) = DecInt(r[2])
    [] OTHER -> FALSE

-----------------------------------------------------------------------------
(* The reference reading r (format's reference decoder applied to the      *)
(* produced bytes) of a leaf.                                              *)
TagNum(r) == IF r[1] = "tag" THEN C!Num(r[2]) ELSE 0 - 1
\* RFC 8949 3.4.3: tag 2 = unsigned bignum n (byte string, big-endian), tag 3 = -1 - n
BignumOf(r) == IF r[1] = "tag" /\ r[3][1] = "bstr" /\ TagNum(r) = 2 THEN <<"ok", SInt(FALSE, NatOf(r[3][2]))>>
               ELSE IF r[1] = "tag" /\ r[3][1] = "bstr" /\ TagNum(r) = 3 THEN <<"ok", SInt(TRUE, N!Add(NatOf(r[3][2]), <<1>>))>>
               ELSE <<"bad">>
\* an integer or bignum (mantissa of tags 4 / 5)
IntOrBignum(r) == IF IsInt(r) THEN <<"ok", IntOf(r)>> ELSE BignumOf(r)
\* tag 4 / 5 content: an array of exactly two items [exponent (integer), mantissa (integer or bignum)]
Pair(r, t) == IF r[1] = "tag" /\ TagNum(r) = t /\ r[3][1] = "arr" /\ Len(r[3][2]) = 2 /\ IsInt(r[3][2][1])
              THEN LET m == IntOrBignum(r[3][2][2]) IN IF m[1] = "ok" THEN <<"ok", IntOf(r[3][2][1]), m[2]>> ELSE <<"bad">>
              ELSE <<"bad">>
TextTag(tag) == CASE tag = "datetime" -> 0 [] tag = "uri" -> 32 [] tag = "base64url" -> 33 [] tag = "base64" -> 34
BytesTag(tag) == CASE tag = "base64url" -> 21 [] tag = "base64" -> 22 [] tag = "base16" -> 23
\* r is the bignum of the signed integer a: compared in the byte domain (BigNat!ToBytes; leading zero bytes are permitted by RFC 8949 3.4.3)
BignumIs(r, a) == /\ r[1] = "tag" /\ r[3][1] = "bstr"
                  /\ IF a[1] THEN TagNum(r) = 3 /\ C!StripZeros(r[3][2]) = N!ToBytes(N!Sub(a[2], <<1>>))
                             ELSE TagNum(r) = 2 /\ C!StripZeros(r[3][2]) = N!ToBytes(a[2])
RefCborIn(tag, base, r) ==
  CASE tag = "bigint" -> BignumIs(r, DecInt(base[2])[2])
    [] tag = "bigdec" -> LET p == Pair(r, 4) IN p[1] = "ok" /\ Canon10(p[3][1], N!ToDec(p[3][2]), p[2]) = DecCanon(base[2])
    [] tag = "bigfloat" -> LET p == Pair(r, 5) IN p[1] = "ok" /\ \E rd \in Radices : Canon2(p[3][1], p[3][2], p[2]) = HexCanon(base[2], rd)
    [] tag = "epoch_second" -> TagNum(r) = 1 /\ r[3][1] \in {"uint", "nint", "f16", "f32", "f64"} /\ (IsInt(base) <=> IsInt(r[3])) /\ Equiv(r[3], base)
    [] tag \in {"datetime", "uri", "base64", "base64url"} /\ base[1] = "tstr" -> TagNum(r) = TextTag(tag) /\ r[3] = base
    [] tag \in {"base64", "base64url", "base16"} /\ base[1] = "bstr" -> TagNum(r) = BytesTag(tag) /\ r[3] = base
RefPlain(f, base, r) ==
  LET r0 == IF f = "cbor" /\ r[1] = "tag" THEN r[3] ELSE r IN                       \* (the tag is unconstrained)
  IF f = "ubjson" /\ base[1] = "bstr" THEN r0[1] \in {"u8arr", "arr"} /\ Equiv(r0, U8Image(base[2]))
  ELSE IF f = "ubjson" /\ BigUint(base) THEN r0[1] = "hpn" /\ SameBigUint(base, r0[2])
  ELSE Kind(r0) = Kind(base) /\ Equiv(IF Len(r0) >= 2 THEN <<r0[1], r0[2]>> ELSE r0, base)   \* (MessagePack ext / timestamp annotations in r0[3..] ignored)
\* MessagePack "Timestamp extension type": the instant of the three formats (Msgpack.tla renders 64 / 96 as decimal nanoseconds)
RefInstant(r) == IF Len(r) = 3 /\ r[1] = "uint" /\ r[3] = "ts32" THEN <<"ok", Scale(SInt(FALSE, NatOf(r[2])), "epoch_second")>>
                 ELSE IF Len(r) = 3 /\ r[1] = "tstr" /\ r[3] \in {"ts64", "ts96", "ts96-neg-frac"} THEN DecInt(r[2])
                 ELSE <<"bad">>
LeafRef(f, tag, base, r) ==
  LET cls == Class(f, tag, base) IN
  CASE cls = "in" -> IF f = "cbor" THEN RefCborIn(tag, base, r)
                     ELSE r[1] = "datetime" /\ r[2] = base                           \* BSON x09: int64 UTC milliseconds
    [] cls = "plain" -> RefPlain(f, base, r)
    [] cls = "hpn" -> r[1] = "hpn" /\ DecCanon(r[2]) = DecCanon(base[2])
    [] cls = "ts" -> RefInstant(r) = <<"ok", Scale(EpochInt(base)[2], tag)>>
    [] OTHER -> FALSE

(* Walk(f, v, r, d): the value v against the reference reading r of the    *)
(* bytes and the library's decoded value d, leaf by leaf.  Generated maps  *)
(* have distinct keys; jsoncons objects come back sorted, so members are   *)
(* looked up by key on both sides.                                         *)
RECURSIVE Walk(_, _, _, _)
Walk(f, v, r, d) ==
  CASE v[1] = "arr" -> /\ r[1] \in {"arr", "u8arr"} /\ d[1] = "arr" /\ Len(r[2]) = Len(v[2]) /\ Len(d[2]) = Len(v[2])
                       /\ \A k \in 1..Len(v[2]) : Walk(f, v[2][k], r[2][k], d[2][k])
    [] v[1] = "map" -> /\ r[1] = "map" /\ d[1] = "map" /\ Len(r[2]) = Len(v[2]) /\ Len(d[2]) = Len(v[2])
                       /\ \A k \in 1..Len(v[2]) : \E i \in 1..Len(r[2]), j \in 1..Len(d[2]) :
                            /\ r[2][i][1] = v[2][k][1] /\ d[2][j][1] = v[2][k][1]
                            /\ Walk(f, v[2][k][2], r[2][i][2], d[2][j][2])
    [] v[1] = "tagged" -> LeafRef(f, v[2], v[3], r) /\ LeafDec(f, v[2], v[3], r, d)
    [] OTHER -> LeafRef(f, "none", v, r) /\ LeafDec(f, "none", v, r, d)

-----------------------------------------------------------------------------
(* Typed arrays (RFC 8746 section 2.1).  Tag layout 0b010_f_s_e_ll:        *)
(*   f = 0 integer / 1 float, s = 0 unsigned / 1 signed (integers),        *)
(*   e = 0 big endian / 1 little endian, ll = length: integers 2^ll bytes, *)
(*   floats 2^(ll+1) bytes.  For 8-bit integers the e bit does not mean    *)
(*   endianness (68 = clamped, 76 reserved): only e = 0 denotes the plain  *)
(*   array.  The content is a byte string of n * width bytes.              *)
ElemTypes == {"u8", "u16", "u32", "u64", "i8", "i16", "i32", "i64", "half", "f32", "f64"}
IsFloatT(et) == et \in {"half", "f32", "f64"}
IsSignedT(et) == et \in {"i8", "i16", "i32", "i64"}
Width(et) == CASE et \in {"u8", "i8"} -> 1 [] et \in {"u16", "i16", "half"} -> 2 [] et \in {"u32", "i32", "f32"} -> 4 [] OTHER -> 8
LL(et) == CASE Width(et) = 1 -> 0 [] Width(et) = 2 -> 1 [] Width(et) = 4 -> 2 [] OTHER -> 3
TATag(et, e) == IF IsFloatT(et) THEN 64 + 16 + (4 * e) + (LL(et) - 1)
                ELSE 64 + (IF IsSignedT(et) THEN 8 ELSE 0) + (4 * e) + LL(et)
Endians(et) == IF Width(et) = 1 THEN {0} ELSE {0, 1}
RECURSIVE RevSeq(_, _, _)
RevSeq(s, k, acc) == IF k = 0 THEN acc ELSE RevSeq(s, k - 1, Append(acc, s[k]))
Reverse(s) == RevSeq(s, Len(s), <<>>)
RECURSIVE InvSeq(_, _, _)
InvSeq(s, k, acc) == IF k > Len(s) THEN acc ELSE InvSeq(s, k + 1, Append(acc, 255 - s[k]))
\* the data-model value of one element given as big-endian raw bits
ElemVal(et, b) == CASE et = "half" -> <<"f16", b>> [] et = "f32" -> <<"f32", b>> [] et = "f64" -> <<"f64", b>>
                    [] IsSignedT(et) /\ b[1] >= 128 -> <<"nint", C!StripZeros(InvSeq(b, 1, <<>>))>>       \* two's complement: -1 - NOT b
                    [] OTHER -> <<"uint", C!StripZeros(b)>>
TAValue(et, el) == <<"arr", [k \in 1..Len(el) |-> ElemVal(et, el[k])]>>
\* raw equality of two elements: integers bit for bit, floats bit for bit with any NaN as a NaN
SameElem(et, a, b) == IF IsFloatT(et) THEN Len(a) = Len(b) /\ Equiv(ElemVal(et, a), ElemVal(et, b)) ELSE a = b
\* r is an RFC 8746 typed array of the elements el
IsTypedArrayOf(et, el, r) ==
  /\ r[1] = "tag" /\ r[3][1] = "bstr"
  /\ \E e \in Endians(et) :
       /\ TagNum(r) = TATag(et, e)
       /\ Len(r[3][2]) = Len(el) * Width(et)
       /\ \A k \in 1..Len(el) :
            LET raw == SubSeq(r[3][2], ((k - 1) * Width(et)) + 1, k * Width(et)) IN
            SameElem(et, IF e = 0 THEN raw ELSE Reverse(raw), el[k])
=============================================================================
