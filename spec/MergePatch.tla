------------------------------ MODULE MergePatch ------------------------------
(***************************************************************************)
(* RFC 7386 JSON Merge Patch, transcribed from the pseudo-code of section  *)
(* 2:                                                                      *)
(*   define MergePatch(Target, Patch):                                     *)
(*     if Patch is an Object:                                              *)
(*       if Target is not an Object: Target = {}                           *)
(*       for each Name/Value pair in Patch:                                *)
(*         if Value is null: if Name exists in Target: remove it           *)
(*         else: Target[Name] = MergePatch(Target[Name], Value)            *)
(*       return Target                                                     *)
(*     else: return Patch                                                  *)
(***************************************************************************)
EXTENDS JsonValue

RECURSIVE Merge(_, _)
Merge(t, p) ==
  IF ~IsObj(p) THEN p
  ELSE LET tf == IF IsObj(t) THEN t[2] ELSE EmptyFn
           pf == p[2]
           removed == {k \in DOMAIN pf : IsNull(pf[k])}
           set == (DOMAIN pf) \ removed
       IN JObj([k \in ((DOMAIN tf) \ removed) \cup set |->
                 IF k \in set
                 THEN Merge(IF k \in DOMAIN tf THEN tf[k] ELSE JNull, pf[k])   \* an absent member is "not an Object"
                 ELSE tf[k]])

\* "contains no null object members" (side condition of the diff law in C16)
RECURSIVE NoNullMembers(_)
NoNullMembers(v) ==
  CASE IsObj(v) -> \A k \in DOMAIN v[2] : ~IsNull(v[2][k]) /\ NoNullMembers(v[2][k])
  [] IsArr(v) -> TRUE      \* RFC 7386 treats arrays as opaque values
  [] OTHER -> TRUE
=============================================================================
