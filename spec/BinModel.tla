------------------------------ MODULE BinModel ------------------------------
(***************************************************************************)
(* Equivalence of values of the binary data model (see Cbor.tla header):   *)
(* what "the same value" means when one side was produced by an encoder    *)
(* that may choose another width (float32/float16 for a double that is     *)
(* exactly representable) or another member order.  Canon(v) maps          *)
(*   f16 / f32  ->  the f64 with the same numeric value (exact widening),  *)
(*   any NaN    ->  one NaN  (the properties say "any NaN as a NaN"),      *)
(*   map        ->  a SET of <<key, value>> pairs (order-insensitive),     *)
(* so that Canon(a) = Canon(b) is the equivalence.                         *)
(***************************************************************************)
EXTENDS Naturals, Sequences, FiniteSets

Pow2(n) == 2 ^ n
\* big-endian bytes <-> small naturals (< 2^31)
RECURSIVE BEVal(_, _, _)
BEVal(bs, k, acc) == IF k > Len(bs) THEN acc ELSE BEVal(bs, k + 1, acc * 256 + bs[k])
\* 64-bit IEEE from sign, biased exponent (11 bits), mantissa given as <<hi20, lo32 as 4 bytes>>
F64Bytes(sign, e11, mhi20, mlo4) ==
  << sign * 128 + (e11 \div 16), (e11 % 16) * 16 + (mhi20 \div 65536), (mhi20 \div 256) % 256, mhi20 % 256 >> \o mlo4
CanonNaN == <<"f64", <<127, 248, 0, 0, 0, 0, 0, 0>>>>

\* widen a normal/zero/inf/nan/subnormal f32 (4 bytes) to f64 bytes
\* f32: s(1) e(8) m(23).  m23 -> 52-bit mantissa = m23 * 2^29 : hi20 = m23 \div 8, low 32 bits = (m23 % 8) * 2^29
RECURSIVE NormShift(_, _)
NormShift(m, k) == IF m >= 8388608 THEN <<m, k>> ELSE NormShift(m * 2, k + 1)     \* shift a 23-bit subnormal mantissa up to bit 23
F32ToF64(b) ==
  LET sign == b[1] \div 128
      e == (b[1] % 128) * 2 + (b[2] \div 128)
      m == (b[2] % 128) * 65536 + b[3] * 256 + b[4]
      Lo4(x) == << (x % 8) * 32, 0, 0, 0 >>
  IN IF e = 255 THEN (IF m = 0 THEN <<"f64", F64Bytes(sign, 2047, 0, <<0,0,0,0>>)>> ELSE CanonNaN)
     ELSE IF e = 0 THEN
          IF m = 0 THEN <<"f64", F64Bytes(sign, 0, 0, <<0,0,0,0>>)>>
          ELSE LET ns == NormShift(m, 0)  mm == ns[1] - 8388608  k == ns[2] IN        \* value = 1.mm * 2^(-126 - k)
               <<"f64", F64Bytes(sign, 1023 - 126 - k, mm \div 8, Lo4(mm))>>
     ELSE <<"f64", F64Bytes(sign, e - 127 + 1023, m \div 8, Lo4(m))>>
\* f16: s(1) e(5) m(10): mantissa -> hi20 = m10 * 2^10
RECURSIVE NormShift10(_, _)
NormShift10(m, k) == IF m >= 1024 THEN <<m, k>> ELSE NormShift10(m * 2, k + 1)
F16ToF64(b) ==
  LET sign == b[1] \div 128
      e == (b[1] % 128) \div 4
      m == (b[1] % 4) * 256 + b[2]
  IN IF e = 31 THEN (IF m = 0 THEN <<"f64", F64Bytes(sign, 2047, 0, <<0,0,0,0>>)>> ELSE CanonNaN)
     ELSE IF e = 0 THEN
          IF m = 0 THEN <<"f64", F64Bytes(sign, 0, 0, <<0,0,0,0>>)>>
          ELSE LET ns == NormShift10(m, 0)  mm == ns[1] - 1024  k == ns[2] IN          \* value = 1.mm * 2^(-14 - k)
               <<"f64", F64Bytes(sign, 1023 - 14 - k, mm * 1024, <<0,0,0,0>>)>>
     ELSE <<"f64", F64Bytes(sign, e - 15 + 1023, m * 1024, <<0,0,0,0>>)>>
IsNaN64(b) == (b[1] % 128) = 127 /\ b[2] >= 240 /\ (b[2] % 16 # 0 \/ b[3] # 0 \/ b[4] # 0 \/ b[5] # 0 \/ b[6] # 0 \/ b[7] # 0 \/ b[8] # 0)

RECURSIVE Canon(_)
Canon(v) ==
  CASE v[1] = "f16" -> F16ToF64(v[2])
    [] v[1] = "f32" -> F32ToF64(v[2])
    [] v[1] = "f64" -> IF IsNaN64(v[2]) THEN CanonNaN ELSE v
    [] v[1] = "arr" \/ v[1] = "u8arr" -> <<"arr", [k \in 1..Len(v[2]) |-> Canon(v[2][k])]>>     \* UBJSON: an array typed as uint8 is an array
    [] v[1] = "map" -> <<"map", {<<Canon(v[2][k][1]), Canon(v[2][k][2])>> : k \in 1..Len(v[2])}>>
    [] v[1] = "tag" -> <<"tag", v[2], Canon(v[3])>>
    [] OTHER -> v
Equiv(a, b) == Canon(a) = Canon(b)
=============================================================================
