------------------------------- MODULE Uri -------------------------------
(***************************************************************************)
(* RFC 3986 reference resolution, transcribed from the text:               *)
(*   Appendix B  (splitting a URI reference into its five components),     *)
(*   5.2.2       (transform references),                                   *)
(*   5.2.3       (merge paths),                                            *)
(*   5.2.4       (remove dot segments),                                    *)
(*   5.3         (component recomposition).                                *)
(* A URI reference is a sequence of code points.  A component is a pair    *)
(* <<defined, chars>>: RFC 3986 distinguishes an undefined component from  *)
(* an empty one ("http://h?" has an empty, defined query).                 *)
(*                                                                         *)
(* JSON Schema (core, section 8.2 / 9.2 in 2019-09 and later, section 8 in *)
(* the earlier drafts) identifies schemas by the URI obtained by resolving *)
(* "$id" against the base URI in force, and "$ref" is resolved the same    *)
(* way; the schema addressed is the one whose identifier equals the result *)
(* (compared without the fragment).  Target below is that composition.     *)
(***************************************************************************)
EXTENDS Naturals, Sequences

Colon == 58
Slash == 47
Quest == 63
Hash  == 35
Dot   == 46

Undef      == <<FALSE, <<>>>>
Def(s)     == <<TRUE, s>>
IsDef(c)   == c[1]
Chars(c)   == c[2]

(* smallest index i >= from with s[i] \in S, Len(s)+1 if none *)
RECURSIVE FirstIn(_, _, _)
FirstIn(s, from, S) ==
  IF from > Len(s) THEN Len(s) + 1
  ELSE IF s[from] \in S THEN from
  ELSE FirstIn(s, from + 1, S)

Sub(s, a, b) == IF a > b THEN <<>> ELSE SubSeq(s, a, b)

StartsWith(s, p) == Len(s) >= Len(p) /\ SubSeq(s, 1, Len(p)) = p

(***************************************************************************)
(* Appendix B gives a regular expression whose groups are: an optional   *)
(* scheme (one or more characters other than : / ? # followed by ":"), an  *)
(* optional authority ("//" followed by characters other than / ? #), the  *)
(* path (characters other than ? #), an optional query ("?" followed by    *)
(* characters other than #) and an optional fragment ("#" and the rest).   *)
(***************************************************************************)
Split(s) ==
  LET stop      == FirstIn(s, 1, {Colon, Slash, Quest, Hash})
      hasScheme == stop <= Len(s) /\ s[stop] = Colon /\ stop > 1
      scheme    == IF hasScheme THEN Def(Sub(s, 1, stop - 1)) ELSE Undef
      r1        == IF hasScheme THEN Sub(s, stop + 1, Len(s)) ELSE s
      hasAuth   == StartsWith(r1, <<Slash, Slash>>)
      aEnd      == FirstIn(r1, 3, {Slash, Quest, Hash})
      auth      == IF hasAuth THEN Def(Sub(r1, 3, aEnd - 1)) ELSE Undef
      r2        == IF hasAuth THEN Sub(r1, aEnd, Len(r1)) ELSE r1
      pEnd      == FirstIn(r2, 1, {Quest, Hash})
      path      == Sub(r2, 1, pEnd - 1)
      r3        == Sub(r2, pEnd, Len(r2))
      hasQuery  == Len(r3) > 0 /\ r3[1] = Quest
      qEnd      == FirstIn(r3, 2, {Hash})
      query     == IF hasQuery THEN Def(Sub(r3, 2, qEnd - 1)) ELSE Undef
      r4        == IF hasQuery THEN Sub(r3, qEnd, Len(r3)) ELSE r3
      hasFrag   == Len(r4) > 0 /\ r4[1] = Hash
      frag      == IF hasFrag THEN Def(Sub(r4, 2, Len(r4))) ELSE Undef
  IN [scheme |-> scheme, authority |-> auth, path |-> path, query |-> query, fragment |-> frag]

(***************************************************************************)
(* 5.2.4 Remove Dot Segments.  in / out are the input and output buffers.  *)
(***************************************************************************)
(* output buffer without its last segment and that segment's preceding "/" (if any) *)
RECURSIVE LastSlash(_, _)
LastSlash(out, i) == IF i = 0 THEN 0 ELSE IF out[i] = Slash THEN i ELSE LastSlash(out, i - 1)
DropLast(out) == LET k == LastSlash(out, Len(out)) IN IF k = 0 THEN <<>> ELSE Sub(out, 1, k - 1)

RECURSIVE Rds(_, _)
Rds(in, out) ==
  IF in = <<>> THEN out
  \* A: prefix "../" or "./"
  ELSE IF StartsWith(in, <<Dot, Dot, Slash>>) THEN Rds(Sub(in, 4, Len(in)), out)
  ELSE IF StartsWith(in, <<Dot, Slash>>)      THEN Rds(Sub(in, 3, Len(in)), out)
  \* B: prefix "/./" or "/." where "." is a complete segment
  ELSE IF StartsWith(in, <<Slash, Dot, Slash>>) THEN Rds(Sub(in, 3, Len(in)), out)
  ELSE IF in = <<Slash, Dot>>                   THEN Rds(<<Slash>>, out)
  \* C: prefix "/../" or "/.." where ".." is a complete segment
  ELSE IF StartsWith(in, <<Slash, Dot, Dot, Slash>>) THEN Rds(Sub(in, 4, Len(in)), DropLast(out))
  ELSE IF in = <<Slash, Dot, Dot>>                   THEN Rds(<<Slash>>, DropLast(out))
  \* D: input is "." or ".."
  ELSE IF in = <<Dot>> \/ in = <<Dot, Dot>> THEN Rds(<<>>, out)
  \* E: move the first path segment (with its initial "/", if any) to the output
  ELSE LET e == FirstIn(in, 2, {Slash}) IN Rds(Sub(in, e, Len(in)), out \o Sub(in, 1, e - 1))

RemoveDotSegments(p) == Rds(p, <<>>)

(***************************************************************************)
(* 5.2.3 Merge Paths                                                       *)
(***************************************************************************)
Merge(base, rpath) ==
  IF IsDef(base.authority) /\ base.path = <<>> THEN <<Slash>> \o rpath
  ELSE LET k == LastSlash(base.path, Len(base.path)) IN Sub(base.path, 1, k) \o rpath

(***************************************************************************)
(* 5.2.2 Transform References (strict parser)                              *)
(***************************************************************************)
Transform(B, R) ==
  IF IsDef(R.scheme) THEN
    [scheme |-> R.scheme, authority |-> R.authority, path |-> RemoveDotSegments(R.path),
     query |-> R.query, fragment |-> R.fragment]
  ELSE IF IsDef(R.authority) THEN
    [scheme |-> B.scheme, authority |-> R.authority, path |-> RemoveDotSegments(R.path),
     query |-> R.query, fragment |-> R.fragment]
  ELSE IF R.path = <<>> THEN
    [scheme |-> B.scheme, authority |-> B.authority, path |-> B.path,
     query |-> IF IsDef(R.query) THEN R.query ELSE B.query, fragment |-> R.fragment]
  ELSE
    [scheme |-> B.scheme, authority |-> B.authority,
     path |-> IF R.path[1] = Slash THEN RemoveDotSegments(R.path)
              ELSE RemoveDotSegments(Merge(B, R.path)),
     query |-> R.query, fragment |-> R.fragment]

(***************************************************************************)
(* 5.3 Component Recomposition                                             *)
(***************************************************************************)
Recompose(T) ==
     (IF IsDef(T.scheme)    THEN Chars(T.scheme) \o <<Colon>> ELSE <<>>)
  \o (IF IsDef(T.authority) THEN <<Slash, Slash>> \o Chars(T.authority) ELSE <<>>)
  \o T.path
  \o (IF IsDef(T.query)     THEN <<Quest>> \o Chars(T.query) ELSE <<>>)
  \o (IF IsDef(T.fragment)  THEN <<Hash>> \o Chars(T.fragment) ELSE <<>>)

Resolve(base, ref) == Recompose(Transform(Split(base), Split(ref)))

(* the identifier a reference addresses: the resolved URI without its fragment *)
NoFragment(T) == [T EXCEPT !.fragment = Undef]
Target(base, ref) == Recompose(NoFragment(Transform(Split(base), Split(ref))))

(***************************************************************************)
(* 2.1 Percent-encoding, and the fragment form of a JSON Pointer           *)
(* (RFC 6901 section 6: the pointer is encoded as UTF-8 and every octet     *)
(* that the fragment rule of RFC 3986 3.5 does not allow is written "%XX").*)
(***************************************************************************)
IsAlpha(c) == (c >= 65 /\ c <= 90) \/ (c >= 97 /\ c <= 122)
IsDigit(c) == c >= 48 /\ c <= 57
Unreserved(c) == IsAlpha(c) \/ IsDigit(c) \/ c \in {45, 46, 95, 126}            \* - . _ ~
SubDelim(c) == c \in {33, 36, 38, 39, 40, 41, 42, 43, 44, 59, 61}                \* ! $ & ' ( ) * + , ; =
FragmentChar(c) == Unreserved(c) \/ SubDelim(c) \/ c \in {58, 64, 47, 63}        \* pchar / "/" / "?"
Utf8Of(cp) == IF cp < 128 THEN <<cp>>
              ELSE IF cp < 2048 THEN <<192 + (cp \div 64), 128 + (cp % 64)>>
              ELSE IF cp < 65536 THEN <<224 + (cp \div 4096), 128 + ((cp \div 64) % 64), 128 + (cp % 64)>>
              ELSE <<240 + (cp \div 262144), 128 + ((cp \div 4096) % 64), 128 + ((cp \div 64) % 64), 128 + (cp % 64)>>
HexDigit(n, upper) == IF n < 10 THEN 48 + n ELSE (IF upper THEN 55 ELSE 87) + n
Pct(b, upper) == <<37, HexDigit(b \div 16, upper), HexDigit(b % 16, upper)>>
RECURSIVE PctBytes(_, _)
PctBytes(bs, upper) == IF bs = <<>> THEN <<>> ELSE Pct(bs[1], upper) \o PctBytes(Tail(bs), upper)
(* mode "min": only what must be encoded; mode "all": everything that is not unreserved *)
RECURSIVE PctEncode(_, _, _)
PctEncode(s, all, upper) ==
  IF s = <<>> THEN <<>>
  ELSE (IF (IF all THEN Unreserved(s[1]) ELSE FragmentChar(s[1])) THEN <<s[1]>> ELSE PctBytes(Utf8Of(s[1]), upper))
       \o PctEncode(Tail(s), all, upper)
(* RFC 6901 section 3: "~" is written ~0 and "/" is written ~1 inside a reference token *)
RECURSIVE PtrEscape(_)
PtrEscape(k) == IF k = <<>> THEN <<>>
                ELSE (IF k[1] = 126 THEN <<126, 48>> ELSE IF k[1] = 47 THEN <<126, 49>> ELSE <<k[1]>>) \o PtrEscape(Tail(k))
(* the reference token that addresses member k, as it appears in a URI fragment *)
FragmentToken(k, all, upper) == PctEncode(PtrEscape(k), all, upper)

(* RFC 3986 5.4: a reference resolves identically whether or not the base carries a fragment, and *)
(* resolving an already resolved reference against the same base changes nothing.                 *)
=============================================================================
