------------------------------ MODULE JsonText ------------------------------
(***************************************************************************)
(* RFC 8259 JSON text as a character-level pushdown recogniser AND value   *)
(* builder, written from the RFC (document-shaped oracle for C02, lexer    *)
(* for recorded encoder output in C01/C08).  Characters are code units     *)
(* (naturals); a text is a sequence of them.                               *)
(*                                                                         *)
(* The two jsoncons relaxations named by the property (allow_comments,     *)
(* allow_trailing_comma) are recognised by the same machine, which records *)
(* whether the text *used* them (uc / ut): the verdict under an option set *)
(* is  accepted /\ (uc => allow_comments) /\ (ut => allow_trailing_comma). *)
(* Both relaxations are purely additive and unambiguous, so this is exact. *)
(*                                                                         *)
(* Raw values (as written, duplicates kept, in text order):                *)
(*   <<"null">>  <<"bool",b>>  <<"num",chars>>  <<"str",cps>>              *)
(*   <<"arr",seq>>  <<"obj",seq of <<keycps,value>> >>                     *)
(* ValueOf(raw) is the value the RFC/property assigns (first duplicate     *)
(* member name wins, order of first occurrence; numbers classified);       *)
(* EventsOf(raw) is the parse-event sequence (every member reported).      *)
(***************************************************************************)
EXTENDS Naturals, Sequences, FiniteSets, TLC

SP == 32  TAB == 9  LF == 10  CR == 13
LBRACK == 91  RBRACK == 93  LBRACE == 123  RBRACE == 125
COMMA == 44  COLON == 58  QUOTE == 34  BSLASH == 92  SLASH == 47  STAR == 42
MINUS == 45  PLUS == 43  DOT == 46  LowerE == 101  UpperE == 69

IsWs(c) == c \in {SP, TAB, LF, CR}
IsDigit(c) == c >= 48 /\ c <= 57
IsDigit19(c) == c >= 49 /\ c <= 57
IsHex(c) == IsDigit(c) \/ (c >= 65 /\ c <= 70) \/ (c >= 97 /\ c <= 102)
HexVal(c) == IF IsDigit(c) THEN c - 48 ELSE IF c >= 97 THEN c - 87 ELSE c - 55

\* literal names as code-unit sequences
LitTrue == <<116, 114, 117, 101>>
LitFalse == <<102, 97, 108, 115, 101>>
LitNull == <<110, 117, 108, 108>>

-----------------------------------------------------------------------------
(* UTF-8: a string body is consumed byte-wise; `need` continuation bytes   *)
(* outstanding, `lo`/`hi` bound the next continuation byte (this encodes   *)
(* the overlong / surrogate / > U+10FFFF exclusions of RFC 3629 table 3-7) *)

Utf8Lead(b) ==  \* <<need, lo, hi, initial cp bits>> or <<>> if b cannot start a sequence
  IF b < 128 THEN <<0, 0, 0, b>>
  ELSE IF b >= 194 /\ b <= 223 THEN <<1, 128, 191, b - 192>>
  ELSE IF b = 224 THEN <<2, 160, 191, 0>>
  ELSE IF (b >= 225 /\ b <= 236) \/ b = 238 \/ b = 239 THEN <<2, 128, 191, b - 224>>
  ELSE IF b = 237 THEN <<2, 128, 159, 13>>
  ELSE IF b = 240 THEN <<3, 144, 191, 0>>
  ELSE IF b >= 241 /\ b <= 243 THEN <<3, 128, 191, b - 240>>
  ELSE IF b = 244 THEN <<3, 128, 143, 4>>
  ELSE <<>>

-----------------------------------------------------------------------------
(* Machine state.                                                          *)
(*  m     mode                                                             *)
(*  stk   container frames, innermost last                                 *)
(*  tok   characters of the current number / code points of current string *)
(*  key   TRUE iff the string being read is a member name                  *)
(*  n,h   \u hex digits still expected / value so far;  hi = pending high  *)
(*        surrogate (0 = none)                                             *)
(*  un,ulo,uhi,ucp  UTF-8 continuation bookkeeping                         *)
(*  lit   remaining characters of a literal name, lv its value             *)
(*  ret   mode to resume after a comment                                   *)
(*  res   the finished top-level value (when m = "done")                   *)
(*  uc,ut used comment / used trailing comma;  tc = a comment occurred     *)
(*        after the top-level value (jsoncons: position not documented)    *)
(*  dc    don't-care: text contains an escape denoting an unpaired         *)
(*        surrogate (RFC 8259 8.2: behaviour unpredictable)                *)
(*  dep   maximum nesting depth reached                                    *)

Frame(k) == [k |-> k, xs |-> <<>>, pk |-> <<>>]

Init0 == [m |-> "start", stk |-> <<>>, tok |-> <<>>, key |-> FALSE, n |-> 0, h |-> 0, hi |-> 0,
          un |-> 0, ulo |-> 0, uhi |-> 0, ucp |-> 0, lit |-> <<>>, lv |-> <<"null">>, ret |-> "start",
          res |-> <<"none">>, uc |-> FALSE, ut |-> FALSE, tc |-> FALSE, dc |-> FALSE, dep |-> 0]

Dead(s) == [s EXCEPT !.m = "dead"]
DontCare(s) == [s EXCEPT !.m = "dead", !.dc = TRUE]

HasKey(ps, k) == \E i \in 1..Len(ps) : ps[i][1] = k

\* a finished value v arrives in the current context
Deliver(s, v) ==
  IF s.stk = <<>> THEN [s EXCEPT !.m = "done", !.res = v, !.tok = <<>>]
  ELSE LET top == s.stk[Len(s.stk)] IN
    IF top.k = "arr"
    THEN [s EXCEPT !.m = "arre", !.tok = <<>>, !.stk[Len(s.stk)].xs = Append(top.xs, v)]
    ELSE [s EXCEPT !.m = "obje", !.tok = <<>>,
                   !.stk[Len(s.stk)].xs = Append(top.xs, <<top.pk, v>>)]

Open(s, k) == LET st == Append(s.stk, Frame(k)) IN
  [s EXCEPT !.stk = st, !.m = IF k = "arr" THEN "arr0" ELSE "obj0",
            !.dep = IF Len(st) > s.dep THEN Len(st) ELSE s.dep]

Close(s) == LET top == s.stk[Len(s.stk)]
                s2 == [s EXCEPT !.stk = SubSeq(s.stk, 1, Len(s.stk) - 1)] IN
  Deliver(s2, <<top.k, top.xs>>)

\* a character that may begin a value
BeginValue(s, c) ==
  IF c = LBRACK THEN Open(s, "arr")
  ELSE IF c = LBRACE THEN Open(s, "obj")
  ELSE IF c = QUOTE THEN [s EXCEPT !.m = "str", !.tok = <<>>, !.key = FALSE]
  ELSE IF c = MINUS THEN [s EXCEPT !.m = "minus", !.tok = <<c>>]
  ELSE IF c = 48 THEN [s EXCEPT !.m = "zero", !.tok = <<c>>]
  ELSE IF IsDigit19(c) THEN [s EXCEPT !.m = "int", !.tok = <<c>>]
  ELSE IF c = 116 THEN [s EXCEPT !.m = "lit", !.lit = Tail(LitTrue), !.lv = <<"bool", TRUE>>]
  ELSE IF c = 102 THEN [s EXCEPT !.m = "lit", !.lit = Tail(LitFalse), !.lv = <<"bool", FALSE>>]
  ELSE IF c = 110 THEN [s EXCEPT !.m = "lit", !.lit = Tail(LitNull), !.lv = <<"null">>]
  ELSE Dead(s)

Comment(s) == [s EXCEPT !.m = "c1", !.ret = s.m, !.uc = TRUE,
                        !.tc = (s.tc \/ s.m = "done")]

\* string body finished
EndString(s) ==
  IF s.key THEN [s EXCEPT !.m = "objc", !.stk[Len(s.stk)].pk = s.tok, !.tok = <<>>, !.key = FALSE]
  ELSE Deliver(s, <<"str", s.tok>>)

PushCp(s, cp) == [s EXCEPT !.m = "str", !.tok = Append(s.tok, cp), !.hi = 0, !.n = 0, !.h = 0]

\* a complete \uXXXX escape with value v
EndU(s, v) ==
  IF s.hi # 0
  THEN IF v >= 56320 /\ v <= 57343
       THEN PushCp(s, 65536 + (s.hi - 55296) * 1024 + (v - 56320))
       ELSE DontCare(s)
  ELSE IF v >= 55296 /\ v <= 56319 THEN [s EXCEPT !.m = "hs0", !.hi = v, !.n = 0, !.h = 0]
  ELSE IF v >= 56320 /\ v <= 57343 THEN DontCare(s)
  ELSE PushCp(s, v)

RECURSIVE Step(_, _)
Step(s, c) ==
  CASE s.m = "dead" -> s
  [] s.m = "start" ->
       IF IsWs(c) THEN s ELSE IF c = SLASH THEN Comment(s) ELSE BeginValue(s, c)
  [] s.m = "done" ->
       IF IsWs(c) THEN s ELSE IF c = SLASH THEN Comment(s) ELSE Dead(s)
  [] s.m = "arr0" ->
       IF IsWs(c) THEN s ELSE IF c = SLASH THEN Comment(s)
       ELSE IF c = RBRACK THEN Close(s) ELSE BeginValue(s, c)
  [] s.m = "arrv" ->
       IF IsWs(c) THEN s ELSE IF c = SLASH THEN Comment(s)
       ELSE IF c = RBRACK THEN Close([s EXCEPT !.ut = TRUE]) ELSE BeginValue(s, c)
  [] s.m = "arre" ->
       IF IsWs(c) THEN s ELSE IF c = SLASH THEN Comment(s)
       ELSE IF c = COMMA THEN [s EXCEPT !.m = "arrv"]
       ELSE IF c = RBRACK THEN Close(s) ELSE Dead(s)
  [] s.m = "obj0" ->
       IF IsWs(c) THEN s ELSE IF c = SLASH THEN Comment(s)
       ELSE IF c = RBRACE THEN Close(s)
       ELSE IF c = QUOTE THEN [s EXCEPT !.m = "str", !.tok = <<>>, !.key = TRUE] ELSE Dead(s)
  [] s.m = "objk" ->
       IF IsWs(c) THEN s ELSE IF c = SLASH THEN Comment(s)
       ELSE IF c = RBRACE THEN Close([s EXCEPT !.ut = TRUE])
       ELSE IF c = QUOTE THEN [s EXCEPT !.m = "str", !.tok = <<>>, !.key = TRUE] ELSE Dead(s)
  [] s.m = "objc" ->
       IF IsWs(c) THEN s ELSE IF c = SLASH THEN Comment(s)
       ELSE IF c = COLON THEN [s EXCEPT !.m = "objv"] ELSE Dead(s)
  [] s.m = "objv" ->
       IF IsWs(c) THEN s ELSE IF c = SLASH THEN Comment(s) ELSE BeginValue(s, c)
  [] s.m = "obje" ->
       IF IsWs(c) THEN s ELSE IF c = SLASH THEN Comment(s)
       ELSE IF c = COMMA THEN [s EXCEPT !.m = "objk"]
       ELSE IF c = RBRACE THEN Close(s) ELSE Dead(s)
  \* ---- comments
  [] s.m = "c1" -> IF c = SLASH THEN [s EXCEPT !.m = "cl"]
                   ELSE IF c = STAR THEN [s EXCEPT !.m = "cb"] ELSE Dead(s)
  [] s.m = "cl" -> IF c = LF \/ c = CR THEN [s EXCEPT !.m = s.ret] ELSE s
  [] s.m = "cb" -> IF c = STAR THEN [s EXCEPT !.m = "cbs"] ELSE s
  [] s.m = "cbs" -> IF c = SLASH THEN [s EXCEPT !.m = s.ret]
                    ELSE IF c = STAR THEN s ELSE [s EXCEPT !.m = "cb"]
  \* ---- literal names
  [] s.m = "lit" ->
       IF c = Head(s.lit)
       THEN IF Len(s.lit) = 1 THEN Deliver([s EXCEPT !.lit = <<>>], s.lv)
            ELSE [s EXCEPT !.lit = Tail(s.lit)]
       ELSE Dead(s)
  \* ---- numbers (RFC 8259 section 6); a number ends at the first character
  \*      that cannot continue it, which is then processed in the context
  [] s.m = "minus" ->
       IF c = 48 THEN [s EXCEPT !.m = "zero", !.tok = Append(s.tok, c)]
       ELSE IF IsDigit19(c) THEN [s EXCEPT !.m = "int", !.tok = Append(s.tok, c)] ELSE Dead(s)
  [] s.m = "zero" ->
       IF c = DOT THEN [s EXCEPT !.m = "frac0", !.tok = Append(s.tok, c)]
       ELSE IF c = LowerE \/ c = UpperE THEN [s EXCEPT !.m = "exp0", !.tok = Append(s.tok, c)]
       ELSE IF IsDigit(c) THEN Dead(s)
       ELSE Step(Deliver(s, <<"num", s.tok>>), c)
  [] s.m = "int" ->
       IF IsDigit(c) THEN [s EXCEPT !.tok = Append(s.tok, c)]
       ELSE IF c = DOT THEN [s EXCEPT !.m = "frac0", !.tok = Append(s.tok, c)]
       ELSE IF c = LowerE \/ c = UpperE THEN [s EXCEPT !.m = "exp0", !.tok = Append(s.tok, c)]
       ELSE Step(Deliver(s, <<"num", s.tok>>), c)
  [] s.m = "frac0" ->
       IF IsDigit(c) THEN [s EXCEPT !.m = "frac", !.tok = Append(s.tok, c)] ELSE Dead(s)
  [] s.m = "frac" ->
       IF IsDigit(c) THEN [s EXCEPT !.tok = Append(s.tok, c)]
       ELSE IF c = LowerE \/ c = UpperE THEN [s EXCEPT !.m = "exp0", !.tok = Append(s.tok, c)]
       ELSE Step(Deliver(s, <<"num", s.tok>>), c)
  [] s.m = "exp0" ->
       IF c = PLUS \/ c = MINUS THEN [s EXCEPT !.m = "exps", !.tok = Append(s.tok, c)]
       ELSE IF IsDigit(c) THEN [s EXCEPT !.m = "exp", !.tok = Append(s.tok, c)] ELSE Dead(s)
  [] s.m = "exps" ->
       IF IsDigit(c) THEN [s EXCEPT !.m = "exp", !.tok = Append(s.tok, c)] ELSE Dead(s)
  [] s.m = "exp" ->
       IF IsDigit(c) THEN [s EXCEPT !.tok = Append(s.tok, c)]
       ELSE Step(Deliver(s, <<"num", s.tok>>), c)
  \* ---- strings (section 7), UTF-8 (section 8.1)
  [] s.m = "str" ->
       IF s.un > 0
       THEN IF c >= s.ulo /\ c <= s.uhi
            THEN LET cp == s.ucp * 64 + (c - 128) IN
                 IF s.un = 1 THEN [s EXCEPT !.tok = Append(s.tok, cp), !.un = 0, !.ucp = 0]
                 ELSE [s EXCEPT !.un = s.un - 1, !.ulo = 128, !.uhi = 191, !.ucp = cp]
            ELSE Dead(s)
       ELSE IF c = QUOTE THEN EndString(s)
       ELSE IF c = BSLASH THEN [s EXCEPT !.m = "esc"]
       ELSE IF c < 32 THEN Dead(s)
       ELSE LET u == Utf8Lead(c) IN
            IF u = <<>> THEN Dead(s)
            ELSE IF u[1] = 0 THEN [s EXCEPT !.tok = Append(s.tok, c)]
            ELSE [s EXCEPT !.un = u[1], !.ulo = u[2], !.uhi = u[3], !.ucp = u[4]]
  [] s.m = "esc" ->
       IF c = QUOTE \/ c = BSLASH \/ c = SLASH THEN PushCp(s, c)
       ELSE IF c = 98 THEN PushCp(s, 8)
       ELSE IF c = 102 THEN PushCp(s, 12)
       ELSE IF c = 110 THEN PushCp(s, 10)
       ELSE IF c = 114 THEN PushCp(s, 13)
       ELSE IF c = 116 THEN PushCp(s, 9)
       ELSE IF c = 117 THEN [s EXCEPT !.m = "u", !.n = 4, !.h = 0]
       ELSE Dead(s)
  [] s.m = "u" ->
       IF IsHex(c)
       THEN LET v == s.h * 16 + HexVal(c) IN
            IF s.n = 1 THEN EndU(s, v) ELSE [s EXCEPT !.n = s.n - 1, !.h = v]
       ELSE Dead(s)
  [] s.m = "hs0" -> IF c = BSLASH THEN [s EXCEPT !.m = "hs1"] ELSE DontCare(s)
  [] s.m = "hs1" -> IF c = 117 THEN [s EXCEPT !.m = "u", !.n = 4, !.h = 0] ELSE DontCare(s)
  [] OTHER -> Dead(s)

\* verdict at end of input (under full relaxation; see uc/ut)
NumComplete(s) == s.m \in {"zero", "int", "frac", "exp"}
AcceptAtEof(s) == s.m = "done" \/ (NumComplete(s) /\ s.stk = <<>>)
ResultAtEof(s) == IF s.m = "done" THEN s.res ELSE <<"num", s.tok>>

RECURSIVE Run(_, _, _)
Run(s, txt, i) == IF i > Len(txt) THEN s ELSE Run(Step(s, txt[i]), txt, i + 1)
RunText(txt) == Run(Init0, txt, 1)

-----------------------------------------------------------------------------
(* Number classification (RFC 8259 section 6: the value of the literal).   *)
(* Integer literals are classified against the native ranges named by the  *)
(* property (C02/C04) by digit-sequence comparison; no arithmetic needed.  *)

IsIntLit(cs) == \A i \in 1..Len(cs) : IsDigit(cs[i]) \/ (i = 1 /\ cs[i] = MINUS)
RECURSIVE DigCmp(_, _, _)
DigCmp(a, b, i) ==  \* equal lengths; -1, 0, 1
  IF i > Len(a) THEN 0 ELSE IF a[i] < b[i] THEN 0 - 1 ELSE IF a[i] > b[i] THEN 1 ELSE DigCmp(a, b, i + 1)
DigLE(a, b) == Len(a) < Len(b) \/ (Len(a) = Len(b) /\ DigCmp(a, b, 1) <= 0)
D2_63 == <<57,50,50,51,51,55,50,48,51,54,56,53,52,55,55,53,56,48,56>>          \* 9223372036854775808
D2_63m1 == <<57,50,50,51,51,55,50,48,51,54,56,53,52,55,55,53,56,48,55>>        \* 9223372036854775807
D2_64m1 == <<49,56,52,52,54,55,52,52,48,55,51,55,48,57,53,53,49,54,49,53>>     \* 18446744073709551615
\* "int" (fits int64), "uint" (fits uint64 only), "big" (outside both), "real" (has frac/exp)
NumClass(cs) ==
  IF ~IsIntLit(cs) THEN "real"
  ELSE IF cs[1] = MINUS THEN IF DigLE(Tail(cs), D2_63) THEN "int" ELSE "big"
  ELSE IF DigLE(cs, D2_63m1) THEN "int" ELSE IF DigLE(cs, D2_64m1) THEN "uint" ELSE "big"

-----------------------------------------------------------------------------
(* Output views of a raw value *)
RECURSIVE DedupFrom(_, _, _)
DedupFrom(ps, i, acc) ==
  IF i > Len(ps) THEN acc
  ELSE DedupFrom(ps, i + 1, IF HasKey(acc, ps[i][1]) THEN acc ELSE Append(acc, ps[i]))

RECURSIVE ValueOf(_)
ValueOf(v) == CASE v[1] = "num" -> <<"num", NumClass(v[2]), v[2]>>
              [] v[1] = "arr" -> <<"arr", [i \in 1..Len(v[2]) |-> ValueOf(v[2][i])]>>
              [] v[1] = "obj" -> LET d == DedupFrom(v[2], 1, <<>>) IN
                                 <<"obj", [i \in 1..Len(d) |-> <<d[i][1], ValueOf(d[i][2])>>]>>
              [] OTHER -> v

RECURSIVE EventsOf(_), EventsOfSeq(_, _), EventsOfMembers(_, _)
EventsOf(v) == CASE v[1] = "num" -> << <<"num", NumClass(v[2]), v[2]>> >>
               [] v[1] = "arr" -> << <<"ba">> >> \o EventsOfSeq(v[2], 1) \o << <<"ea">> >>
               [] v[1] = "obj" -> << <<"bo">> >> \o EventsOfMembers(v[2], 1) \o << <<"eo">> >>
               [] OTHER -> <<v>>
EventsOfSeq(xs, i) == IF i > Len(xs) THEN <<>> ELSE EventsOf(xs[i]) \o EventsOfSeq(xs, i + 1)
EventsOfMembers(ps, i) == IF i > Len(ps) THEN <<>>
                          ELSE << <<"key", ps[i][1]>> >> \o EventsOf(ps[i][2]) \o EventsOfMembers(ps, i + 1)
=============================================================================
