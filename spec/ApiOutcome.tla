------------------------------ MODULE ApiOutcome ------------------------------
(***************************************************************************)
(* The outcome protocol of every public entry point (property C05):        *)
(*     Call  ->  Return | ErrorCode | JsonException                        *)
(* A call terminates and either returns a result or reports failure        *)
(* through the documented error channel: a std::error_code, or an          *)
(* exception that implements json_exception.  There is deliberately NO     *)
(* action for: an exception of a foreign type (std::out_of_range,          *)
(* std::bad_alloc without memory pressure, ...), jsoncons::assertion_error *)
(* escaping a public entry point, a fatal signal, a sanitizer report       *)
(* (out-of-bounds access, undefined behaviour), a leak, or a call that     *)
(* does not return within its time budget.  A trace containing one of      *)
(* those events is rejected at that event.                                 *)
(***************************************************************************)
EXTENDS Naturals
VARIABLES pending    \* a call is in flight
Init0 == pending = FALSE
Call == ~pending /\ pending' = TRUE
Return == pending /\ pending' = FALSE
ErrorCode == pending /\ pending' = FALSE
JsonException == pending /\ pending' = FALSE
Allowed == {"Return", "ErrorCode", "JsonException"}
=============================================================================
