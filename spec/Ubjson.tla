------------------------------- MODULE Ubjson -------------------------------
(***************************************************************************)
(* Universal Binary JSON, Draft 12 (ubjson.org) reference decoder as total *)
(* recursive operators over a byte sequence.  Written from the format      *)
(* specification ("Type reference": value types, container types,          *)
(* optimized format), not from any implementation.  Oracle for C07.        *)
(*                                                                         *)
(*   Decode(b)  ==  <<"ok", value, next>>  |  <<"err">>                    *)
(* decodes ONE top-level item starting at 1-based position 1.              *)
(*                                                                         *)
(* Values are those of the shared binary data model (header of Cbor.tla):  *)
(*   <<"uint", bs>> <<"nint", bs>>  big-endian magnitude, no leading zeros *)
(*                    (nint n denotes -1-n).  UBJSON integers are signed   *)
(*                    two's complement, big-endian ("UBJSON is big-endian  *)
(*                    for all numeric values"), except uint8.              *)
(*   <<"tstr", bytes>>  string / char / object key (well-formed UTF-8)     *)
(*   <<"arr", seq>>  <<"map", seq of <<key, value>> >>                     *)
(*   <<"bool", b>> <<"null">> <<"f32", bytes4>> <<"f64", bytes8>>          *)
(* and, UBJSON only (never value-compared, Plain = FALSE):                 *)
(*   <<"hpn", bytes>>        high-precision number (a JSON number text)    *)
(*   <<"u8arr", seq>>        array strongly typed as uint8 (binary data)   *)
(*   <<"rep", v, countbs>>   strongly typed array of more than RepMax      *)
(*                           payload-free elements v (null/true/false)     *)
(*   <<"noops", countbs>>    [$][N][#] n : "a series of n no-ops"          *)
(*   <<"unspecified_noop">>  see NO-OP below                               *)
(*   <<"hpn_malformed", bytes>>, <<"badtype_empty", t>>  see KNOWN DEFECTS *)
(*                                                                         *)
(* NO-OP.  Draft 12, value type 'N': "a valueless value ... when parsed    *)
(* by the receiver the no-op is simply ignored"; the only placement the    *)
(* specification shows is between the elements of an array without count.  *)
(* It does not say whether a no-op is counted by '#', whether it may stand *)
(* before an object key or in place of an object member's value, nor what  *)
(* "decode one item" yields for a stream that starts with 'N' (keep-alive).*)
(* The decoder therefore ignores 'N' between elements of an uncounted,     *)
(* untyped array, and as soon as it meets 'N' in any other value / key     *)
(* position it stops with the third outcome <<"dc">>: the whole input is   *)
(* a don't-care (Decode maps it to <<"ok", <<"unspecified_noop">>, ..>>,   *)
(* MayRefuse = TRUE, Plain = FALSE, so nothing is compared).  Everything   *)
(* left of that 'N' has been decoded, so ill-formedness before it is still *)
(* predicted.                                                              *)
(***************************************************************************)
EXTENDS Naturals, Sequences, FiniteSets

Huge == 100000000          \* stands for "longer than any input we ever build"
RepMax == 300              \* payload-free typed arrays up to this count are built explicitly

At(b, i) == IF i >= 1 /\ i <= Len(b) THEN b[i] ELSE 0 - 1
StripZeros(bs) == LET nz == {k \in 1..Len(bs) : bs[k] # 0} IN
                  IF nz = {} THEN <<>> ELSE SubSeq(bs, CHOOSE k \in nz : \A m \in nz : k <= m, Len(bs))
\* numeric value of a big-endian byte sequence, saturating at Huge
RECURSIVE NumOf(_, _, _)
NumOf(bs, k, acc) == IF k > Len(bs) THEN acc
                     ELSE IF acc >= Huge \div 256 THEN Huge ELSE NumOf(bs, k + 1, (acc * 256) + bs[k])
Num(bs) == NumOf(StripZeros(bs), 1, 0)
\* bitwise NOT of every byte (real tuple)
RECURSIVE ComplOf(_, _, _)
ComplOf(bs, k, acc) == IF k > Len(bs) THEN acc ELSE ComplOf(bs, k + 1, Append(acc, 255 - bs[k]))
Compl(bs) == ComplOf(bs, 1, <<>>)

-----------------------------------------------------------------------------
(* Marker bytes (Draft 12 type reference table)                            *)
mZ == 90   mN == 78   mT == 84   mF == 70                      \* null no-op true false
mi == 105  mU == 85   mI == 73   ml == 108  mL == 76           \* int8 uint8 int16 int32 int64
md == 100  mD == 68   mH == 72   mC == 67   mS == 83           \* float32 float64 high-precision char string
mAO == 91  mAC == 93  mOO == 123 mOC == 125                    \* [ ] { }
mTy == 36  mCnt == 35                                          \* $ #

\* payload width of the fixed-width integer types; 0 = not an integer type
IntWidth(t) == CASE t = mi -> 1 [] t = mU -> 1 [] t = mI -> 2 [] t = ml -> 4 [] t = mL -> 8 [] OTHER -> 0
\* "[$][type]": the marker of a value type or of a container type
IsTypeMarker(t) == t \in {mZ, mN, mT, mF, mi, mU, mI, ml, mL, md, mD, mH, mC, mS, mAO, mOO}
\* value types that consist of the marker only
PayloadFree(t) == t \in {mZ, mT, mF}
MarkerValue(t) == CASE t = mZ -> <<"null">> [] t = mT -> <<"bool", TRUE>> [] t = mF -> <<"bool", FALSE>>

-----------------------------------------------------------------------------
(* UTF-8 well-formedness (RFC 3629 section 4 ABNF): "string: UTF-8 encoded" *)
Tail1(c) == c >= 128 /\ c <= 191
RECURSIVE Utf8Ok(_, _)
Utf8Ok(s, i) ==
  IF i > Len(s) THEN TRUE
  ELSE LET c == At(s, i) c1 == At(s, i + 1) c2 == At(s, i + 2) c3 == At(s, i + 3) IN
    IF c <= 127 THEN Utf8Ok(s, i + 1)
    ELSE IF c >= 194 /\ c <= 223 /\ Tail1(c1) THEN Utf8Ok(s, i + 2)
    ELSE IF c = 224 /\ c1 >= 160 /\ c1 <= 191 /\ Tail1(c2) THEN Utf8Ok(s, i + 3)
    ELSE IF ((c >= 225 /\ c <= 236) \/ c = 238 \/ c = 239) /\ Tail1(c1) /\ Tail1(c2) THEN Utf8Ok(s, i + 3)
    ELSE IF c = 237 /\ c1 >= 128 /\ c1 <= 159 /\ Tail1(c2) THEN Utf8Ok(s, i + 3)
    ELSE IF c = 240 /\ c1 >= 144 /\ c1 <= 191 /\ Tail1(c2) /\ Tail1(c3) THEN Utf8Ok(s, i + 4)
    ELSE IF c >= 241 /\ c <= 243 /\ Tail1(c1) /\ Tail1(c2) /\ Tail1(c3) THEN Utf8Ok(s, i + 4)
    ELSE IF c = 244 /\ c1 >= 128 /\ c1 <= 143 /\ Tail1(c2) /\ Tail1(c3) THEN Utf8Ok(s, i + 4)
    ELSE FALSE

(* High-precision number: "a string-encoded number ... must be written in  *)
(* accordance with the JSON number specification" (RFC 8259 section 6):    *)
(*   [ "-" ] ( "0" / digit1-9 *DIGIT ) [ "." 1*DIGIT ] [ ("e"/"E") ["+"/"-"] 1*DIGIT ] *)
Digit(c) == c >= 48 /\ c <= 57
RECURSIVE DigitsEnd(_, _)          \* position after the maximal run of digits that starts at i
DigitsEnd(s, i) == IF Digit(At(s, i)) THEN DigitsEnd(s, i + 1) ELSE i
JsonNumber(s) ==
  LET i0 == IF At(s, 1) = 45 THEN 2 ELSE 1
      i1 == IF At(s, i0) = 48 THEN i0 + 1 ELSE IF Digit(At(s, i0)) THEN DigitsEnd(s, i0) ELSE 0
  IN IF i1 = 0 THEN FALSE
     ELSE LET i2 == IF At(s, i1) = 46 THEN (IF Digit(At(s, i1 + 1)) THEN DigitsEnd(s, i1 + 1) ELSE 0) ELSE i1 IN
       IF i2 = 0 THEN FALSE
       ELSE LET i3 == IF At(s, i2) = 69 \/ At(s, i2) = 101
                      THEN LET j == IF At(s, i2 + 1) = 43 \/ At(s, i2 + 1) = 45 THEN i2 + 2 ELSE i2 + 1 IN
                           IF Digit(At(s, j)) THEN DigitsEnd(s, j) ELSE 0
                      ELSE i2 IN
            i3 = Len(s) + 1

-----------------------------------------------------------------------------
(* KNOWN DEFECTS of the implementation under test.  Each one is excluded   *)
(* from the comparison by turning the specification's verdict "ill-formed" *)
(* for exactly that root cause into a well-formed value of a kind that     *)
(* KnownDefectN recognises (MayRefuse = TRUE: nothing is compared).  Set   *)
(* the flag to FALSE to get the strict Draft-12 verdict back.  See         *)
(* notes/C07-ubjson.md, SUSPECTED DEFECTS.                                 *)
ExcludeKnownDefect1 == TRUE   \* 'H' payload that is not a JSON number is accepted (as a bigdec-tagged string)
ExcludeKnownDefect2 == FALSE  \* [$][t][#] 0 with t not a type marker is accepted (as an empty container)
KnownDefect1(v) == v[1] = "hpn_malformed"
KnownDefect2(v) == v[1] = "badtype_empty"

-----------------------------------------------------------------------------
(* Length / count: "[length] is an integer value of any of the integer     *)
(* types (int8, uint8, int16, int32, int64)"; "must be >= 0".              *)
(* <<"ok", n (saturated), next, magnitude bytes>> | <<"err">>              *)
Length(b, i) ==
  LET t == At(b, i)  w == IntWidth(t) IN
  IF w = 0 THEN <<"err">>                              \* end of input, or not an integer type marker
  ELSE IF i + w > Len(b) THEN <<"err">>                \* truncated
  ELSE LET bs == SubSeq(b, i + 1, i + w) IN
       IF t # mU /\ bs[1] >= 128 THEN <<"err">>        \* negative (two's complement sign bit)
       ELSE <<"ok", Num(bs), i + 1 + w, StripZeros(bs)>>

\* integer value types: int8/16/32/64 signed two's complement big-endian, uint8 unsigned
IntValue(t, bs) == IF t = mU \/ bs[1] < 128 THEN <<"uint", StripZeros(bs)>> ELSE <<"nint", StripZeros(Compl(bs))>>

\* length-prefixed byte run starting at the length marker: <<"ok", bytes, next>>
Run(b, i) ==
  LET l == Length(b, i) IN
  IF l[1] = "err" THEN <<"err">>
  ELSE IF l[3] + l[2] - 1 > Len(b) THEN <<"err">>      \* truncated payload
  ELSE <<"ok", SubSeq(b, l[3], l[3] + l[2] - 1), l[3] + l[2]>>

RECURSIVE Replicate(_, _, _)
Replicate(v, n, acc) == IF n = 0 THEN acc ELSE Replicate(v, n - 1, Append(acc, v))

RECURSIVE Item(_, _), Value(_, _, _), Elems(_, _, _, _), OpenElems(_, _, _), TypedElems(_, _, _, _, _),
          Pairs(_, _, _, _), OpenPairs(_, _, _), TypedPairs(_, _, _, _, _)

\* object key: "[i][3][lat]" - the string payload without the 'S' marker
Key(b, i) ==
  LET r == Run(b, i) IN
  IF r[1] = "err" THEN r
  ELSE IF ~Utf8Ok(r[2], 1) THEN <<"err">>
  ELSE <<"ok", <<"tstr", r[2]>>, r[3]>>

\* array with count, no type: n further items, each with its own marker; no end marker
Elems(b, i, n, acc) ==
  IF n = 0 THEN <<"ok", acc, i>>
  ELSE IF i > Len(b) THEN <<"err">>                    \* "must contain the specified number of child elements"
  ELSE LET r == Item(b, i) IN IF r[1] # "ok" THEN r ELSE Elems(b, r[3], n - 1, Append(acc, r[2]))
\* plain array: items until ']' ; no-ops between the elements are ignored
OpenElems(b, i, acc) ==
  IF i > Len(b) THEN <<"err">>
  ELSE IF b[i] = mAC THEN <<"ok", acc, i + 1>>
  ELSE IF b[i] = mN THEN OpenElems(b, i + 1, acc)
  ELSE LET r == Item(b, i) IN IF r[1] # "ok" THEN r ELSE OpenElems(b, r[3], Append(acc, r[2]))
\* strongly typed array of a type with payload: n payloads of type t without markers
TypedElems(b, i, t, n, acc) ==
  IF n = 0 THEN <<"ok", acc, i>>
  ELSE IF i > Len(b) THEN <<"err">>
  ELSE LET r == Value(b, i, t) IN IF r[1] # "ok" THEN r ELSE TypedElems(b, r[3], t, n - 1, Append(acc, r[2]))

Pairs(b, i, n, acc) ==
  IF n = 0 THEN <<"ok", acc, i>>
  ELSE IF i > Len(b) THEN <<"err">>
  ELSE IF b[i] = mN THEN <<"dc">>                      \* no-op in key position: unspecified
  ELSE LET k == Key(b, i) IN IF k[1] # "ok" THEN k
       ELSE LET v == Item(b, k[3]) IN IF v[1] # "ok" THEN v ELSE Pairs(b, v[3], n - 1, Append(acc, <<k[2], v[2]>>))
OpenPairs(b, i, acc) ==
  IF i > Len(b) THEN <<"err">>
  ELSE IF b[i] = mOC THEN <<"ok", acc, i + 1>>
  ELSE IF b[i] = mN THEN <<"dc">>
  ELSE LET k == Key(b, i) IN IF k[1] # "ok" THEN k
       ELSE LET v == Item(b, k[3]) IN IF v[1] # "ok" THEN v ELSE OpenPairs(b, v[3], Append(acc, <<k[2], v[2]>>))
\* strongly typed object: n times key + payload of type t (for payload-free t the key alone)
TypedPairs(b, i, t, n, acc) ==
  IF n = 0 THEN <<"ok", acc, i>>
  ELSE IF i > Len(b) THEN <<"err">>                    \* every pair has at least the key's length
  ELSE IF b[i] = mN THEN <<"dc">>
  ELSE LET k == Key(b, i) IN IF k[1] # "ok" THEN k
       ELSE LET v == Value(b, k[3], t) IN IF v[1] # "ok" THEN v ELSE TypedPairs(b, v[3], t, n - 1, Append(acc, <<k[2], v[2]>>))

(* Optimized format.  "[$][type][#][count]":                                *)
(*  - "If a type is specified, it must be done so before a count."          *)
(*  - "If a type is specified, a count must be specified as well."          *)
(*  - "A count must be >= 0."  "If a count is specified the container must  *)
(*    not specify an end-marker."                                           *)
(*  - "A container that specifies a type must not contain any additional    *)
(*    type markers for any contained value."                                *)
ArrayBody(b, i) ==
  IF At(b, i) = mTy THEN
    LET t == At(b, i + 1) IN
    IF i + 1 > Len(b) \/ At(b, i + 2) # mCnt THEN <<"err">>             \* truncated, or type without count
    ELSE LET c == Length(b, i + 3) IN
      IF c[1] = "err" THEN <<"err">>
      ELSE IF ~IsTypeMarker(t) THEN
             (IF ExcludeKnownDefect2 /\ c[2] = 0 THEN <<"ok", <<"badtype_empty", t>>, c[3]>> ELSE <<"err">>)
      ELSE IF t = mN THEN <<"ok", <<"noops", c[4]>>, c[3]>>             \* "[$][N][#][I][512]" - a series of no-ops
      ELSE IF PayloadFree(t) THEN
             (IF c[2] <= RepMax THEN <<"ok", <<"arr", Replicate(MarkerValue(t), c[2], <<>>)>>, c[3]>>
              ELSE <<"ok", <<"rep", MarkerValue(t), c[4]>>, c[3]>>)
      ELSE LET r == TypedElems(b, c[3], t, c[2], <<>>) IN
           IF r[1] # "ok" THEN r ELSE <<"ok", <<IF t = mU THEN "u8arr" ELSE "arr", r[2]>>, r[3]>>
  ELSE IF At(b, i) = mCnt THEN
    LET c == Length(b, i + 1) IN
    IF c[1] = "err" THEN <<"err">>
    ELSE LET r == Elems(b, c[3], c[2], <<>>) IN IF r[1] # "ok" THEN r ELSE <<"ok", <<"arr", r[2]>>, r[3]>>
  ELSE LET r == OpenElems(b, i, <<>>) IN IF r[1] # "ok" THEN r ELSE <<"ok", <<"arr", r[2]>>, r[3]>>

ObjectBody(b, i) ==
  IF At(b, i) = mTy THEN
    LET t == At(b, i + 1) IN
    IF i + 1 > Len(b) \/ At(b, i + 2) # mCnt THEN <<"err">>
    ELSE LET c == Length(b, i + 3) IN
      IF c[1] = "err" THEN <<"err">>
      ELSE IF ~IsTypeMarker(t) THEN
             (IF ExcludeKnownDefect2 /\ c[2] = 0 THEN <<"ok", <<"badtype_empty", t>>, c[3]>> ELSE <<"err">>)
      ELSE LET r == TypedPairs(b, c[3], t, c[2], <<>>) IN IF r[1] # "ok" THEN r ELSE <<"ok", <<"map", r[2]>>, r[3]>>
  ELSE IF At(b, i) = mCnt THEN
    LET c == Length(b, i + 1) IN
    IF c[1] = "err" THEN <<"err">>
    ELSE LET r == Pairs(b, c[3], c[2], <<>>) IN IF r[1] # "ok" THEN r ELSE <<"ok", <<"map", r[2]>>, r[3]>>
  ELSE LET r == OpenPairs(b, i, <<>>) IN IF r[1] # "ok" THEN r ELSE <<"ok", <<"map", r[2]>>, r[3]>>

\* the payload of a value of type t that starts at position i (the marker has been consumed or was given by '$')
Value(b, i, t) ==
  CASE t = mZ -> <<"ok", <<"null">>, i>>                                 \* null: marker only
    [] t = mT -> <<"ok", <<"bool", TRUE>>, i>>
    [] t = mF -> <<"ok", <<"bool", FALSE>>, i>>
    [] t = mN -> <<"dc">>                                                \* no-op in a place the specification does not cover
    [] IntWidth(t) > 0 ->                                                \* int8 uint8 int16 int32 int64
         LET w == IntWidth(t) IN
         IF i + w - 1 > Len(b) THEN <<"err">> ELSE <<"ok", IntValue(t, SubSeq(b, i, i + w - 1)), i + w>>
    [] t = md -> IF i + 3 > Len(b) THEN <<"err">> ELSE <<"ok", <<"f32", SubSeq(b, i, i + 3)>>, i + 4>>    \* IEEE 754 single, big-endian
    [] t = mD -> IF i + 7 > Len(b) THEN <<"err">> ELSE <<"ok", <<"f64", SubSeq(b, i, i + 7)>>, i + 8>>    \* IEEE 754 double, big-endian
    [] t = mC -> IF i > Len(b) \/ b[i] > 127 THEN <<"err">>             \* char: one byte, "must not have a value larger than 127"
                 ELSE <<"ok", <<"tstr", <<b[i]>>>>, i + 1>>
    [] t = mS -> LET r == Run(b, i) IN                                   \* [S][length][UTF-8 bytes]
                 IF r[1] = "err" THEN r ELSE IF ~Utf8Ok(r[2], 1) THEN <<"err">> ELSE <<"ok", <<"tstr", r[2]>>, r[3]>>
    [] t = mH -> LET r == Run(b, i) IN                                   \* [H][length][JSON number text]
                 IF r[1] = "err" THEN r
                 ELSE IF JsonNumber(r[2]) THEN <<"ok", <<"hpn", r[2]>>, r[3]>>
                 ELSE IF ExcludeKnownDefect1 THEN <<"ok", <<"hpn_malformed", r[2]>>, r[3]>> ELSE <<"err">>
    [] t = mAO -> ArrayBody(b, i)
    [] t = mOO -> ObjectBody(b, i)
    [] OTHER -> <<"err">>                                                \* not a value marker (incl. ] } $ # and the retired draft-8/9 codes)

Item(b, i) == IF i > Len(b) THEN <<"err">> ELSE Value(b, i + 1, b[i])

\* whole-input decoding of the first item
Decode(b) == LET r == Item(b, 1) IN IF r[1] = "dc" THEN <<"ok", <<"unspecified_noop">>, 1>> ELSE r

-----------------------------------------------------------------------------
(* Plain(v): v uses only kinds that binval.hpp can compare and for which    *)
(* jsoncons documents the image (doc/ref/ubjson/ubjson.md: null, bool,      *)
(* integers -> int64/uint64, float32/64 -> double, string -> string, array, *)
(* object).  Not plain: high-precision numbers (image: string tagged        *)
(* bigint/bigdec - no such kind in binval.hpp), arrays strongly typed as    *)
(* uint8 (documented image byte_string, the decoder yields an array),       *)
(* symbolic repetitions, no-ops, duplicate keys.                            *)
RECURSIVE Plain(_)
Plain(v) ==
  CASE v[1] = "arr" -> \A k \in 1..Len(v[2]) : Plain(v[2][k])
    [] v[1] = "map" -> /\ \A k \in 1..Len(v[2]) : Plain(v[2][k][2])
                       /\ \A k, m \in 1..Len(v[2]) : k # m => v[2][k][1] # v[2][m][1]                  \* no duplicate keys
    [] v[1] \in {"hpn", "hpn_malformed", "u8arr", "rep", "noops", "unspecified_noop", "badtype_empty"} -> FALSE
    [] OTHER -> TRUE

(* MayRefuse(v): well-formed (or don't-care) inputs whose verdict is not    *)
(* compared:                                                               *)
(*  - unspecified_noop: see NO-OP in the header;                            *)
(*  - rep with a count of 2^24 or more: a decoder may bound the number of   *)
(*    items it materialises (jsoncons: ubjson_options::max_items);          *)
(*  - the known defects.                                                    *)
RECURSIVE MayRefuse(_)
MayRefuse(v) ==
  CASE v[1] = "arr" \/ v[1] = "u8arr" -> \E k \in 1..Len(v[2]) : MayRefuse(v[2][k])
    [] v[1] = "map" -> \E k \in 1..Len(v[2]) : MayRefuse(v[2][k][2])
    [] v[1] = "unspecified_noop" -> TRUE
    [] v[1] = "rep" -> Len(v[3]) >= 4
    [] v[1] = "noops" -> Len(v[2]) >= 4
    [] KnownDefect1(v) \/ KnownDefect2(v) -> TRUE
    [] OTHER -> FALSE
=============================================================================
