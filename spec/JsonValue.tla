------------------------------ MODULE JsonValue ------------------------------
(***************************************************************************)
(* The JSON data model used by the document-level modules (JsonPointer,    *)
(* JsonPatch, MergePatch, JsonPath, Jmespath, ...).                        *)
(*                                                                         *)
(*   <<"null">>  <<"bool", b>>  <<"int", n>>  <<"str", cps>>               *)
(*   <<"arr", seq>>            - a sequence of values                      *)
(*   <<"obj", f>>              - a function from keys to values; keys are  *)
(*                               sequences of code points.  A function is  *)
(*                               the mathematical "map with unique keys"   *)
(*                               of the property statements: equality of   *)
(*                               objects is order-insensitive by           *)
(*                               construction.                             *)
(* Values are plain TLA+ tuples, so = on them is JSON-value equality.      *)
(***************************************************************************)
EXTENDS Naturals, Sequences, FiniteSets, SequencesExt

JNull == <<"null">>
JBool(b) == <<"bool", b>>
JInt(n) == <<"int", n>>
JStr(cps) == <<"str", cps>>
JArr(s) == <<"arr", s>>
JObj(f) == <<"obj", f>>
EmptyFn == [x \in {} |-> JNull]
EmptyObj == JObj(EmptyFn)
EmptyArr == JArr(<<>>)

IsObj(v) == v[1] = "obj"
IsArr(v) == v[1] = "arr"
IsNull(v) == v[1] = "null"
Keys(v) == DOMAIN v[2]
HasKey(v, k) == IsObj(v) /\ k \in DOMAIN v[2]

\* function update / removal
Put(f, k, v) == [x \in (DOMAIN f) \cup {k} |-> IF x = k THEN v ELSE f[x]]
Del(f, k) == [x \in (DOMAIN f) \ {k} |-> f[x]]

\* sequence editing (0-based index i as in JSON Pointer)
InsertAt0(s, i, v) == SubSeq(s, 1, i) \o <<v>> \o SubSeq(s, i + 1, Len(s))
RemoveAt0(s, i) == SubSeq(s, 1, i) \o SubSeq(s, i + 2, Len(s))
ReplaceAt0(s, i, v) == [s EXCEPT ![i + 1] = v]

(* Bounded universes: all objects with keys from K and values from V, all  *)
(* arrays up to length n over V.                                           *)
ObjsOver(K, V) == { JObj(f) : f \in UNION { [S -> V] : S \in SUBSET K } }
ArrsOver(V, n) == { JArr(s) : s \in UNION { [1..m -> V] : m \in 0..n } }

(* Wire form for emission with ToJson: objects become sequences of         *)
(* <<key, value>> pairs (keys are arbitrary code-point sequences, not JSON *)
(* strings), in an arbitrary but fixed order.                              *)
RECURSIVE Wire(_)
Wire(v) == CASE v[1] = "arr" -> <<"arr", [i \in 1..Len(v[2]) |-> Wire(v[2][i])]>>
           [] v[1] = "obj" -> LET ks == SetToSeq(DOMAIN v[2]) IN
                              <<"obj", [i \in 1..Len(ks) |-> <<ks[i], Wire(v[2][ks[i]])>>]>>
           [] OTHER -> v
=============================================================================
