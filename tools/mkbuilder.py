#!/usr/bin/env python3
import json, sys
pid, module, governing = sys.argv[1], sys.argv[2], sys.argv[3]
props = {json.loads(l)['id']: json.loads(l) for l in open('/verif/properties.jsonl')}
p = props[pid]
t = open('/verif/tools/builder_prompt.txt').read()
for a, b in (('@ID@', pid), ('@id@', pid.lower()), ('@TITLE@', p['title']), ('@STATEMENT@', p['statement']), ('@QUANT@', p['quantifier']['text']),
             ('@MODULE@', module), ('@GOVERNING@', governing)):
    t = t.replace(a, b)
sys.stdout.write(t)
