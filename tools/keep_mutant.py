#!/usr/bin/env python3
"""usage: keep_mutant.py <agent_out_dir> <seed_id> <Cnn,Cnn...> [rebased_patch]
Confirms the demonstration (passes on current /repo, fails with the patch), runs the named checks
against the mutated copy, and stores everything under /verif/seeded/<seed_id>/."""
import sys, os, json, shutil, subprocess, tempfile, glob
out, sid, checks = sys.argv[1], sys.argv[2], sys.argv[3].split(',')
patch = sys.argv[4] if len(sys.argv) > 4 else os.path.join(out, 'patch.diff')
dst = os.path.join('/verif/seeded', sid)
os.makedirs(dst, exist_ok=True)
work = tempfile.mkdtemp(prefix='keepmut.')
try:
    shutil.copytree('/repo/include', os.path.join(work, 'include'))
    demo = os.path.join(out, 'demo.cpp')
    def build_run(inc, tag):
        exe = os.path.join(work, 'demo_' + tag)
        p = subprocess.run(['g++', '-std=c++17', '-O0', '-w', '-I' + inc, demo, '-o', exe], capture_output=True, text=True)
        if p.returncode:
            return 'compile-error: ' + p.stderr[-500:]
        try:
            r = subprocess.run([exe], capture_output=True, text=True, timeout=120)
            return r.returncode
        except subprocess.TimeoutExpired:
            return 'timeout'
    before = build_run('/repo/include', 'before')
    p = subprocess.run(['patch', '-p1', '--no-backup-if-mismatch', '-s', '-i', os.path.abspath(patch)], cwd=work, capture_output=True, text=True)
    if p.returncode:
        print('PATCH DID NOT APPLY', p.stdout, p.stderr); sys.exit(3)
    after = build_run(os.path.join(work, 'include'), 'after')
    print('demo: unpatched ->', before, ' patched ->', after)
    results = {}
    for c in [x for x in checks if x]:
        env = dict(os.environ, VERIF_REPO=work, VERIF_EVIDENCE_DIR=os.path.join(work, 'ev'))
        r = subprocess.run(['python3', '/verif/bin/check', c, '--tier', os.environ.get('TIER', 'quick')], capture_output=True, text=True, env=env)
        lines = [l for l in r.stdout.splitlines() if l.startswith(('VIOLATION', 'KNOWN-FINDING', 'INFRA'))]
        results[c] = dict(rc=r.returncode, lines=lines[:3])
        print(c, 'rc=%d' % r.returncode, lines[:1])
    meta = {}
    if os.path.exists(os.path.join(out, 'meta.json')):
        try:
            meta = json.load(open(os.path.join(out, 'meta.json')))
        except Exception as e:
            meta = {'agent_meta_unreadable': str(e)}
    ctest_logs = glob.glob(os.path.join(os.path.dirname(out.rstrip('/')), '*ctest*')) + glob.glob(os.path.join(out, '*ctest*'))
    suite = None
    for l in ctest_logs:
        t = open(l, errors='replace').read()
        if '100% tests passed' in t:
            suite = 'agent ctest log %s: 100%% tests passed' % os.path.basename(l)
    meta['confirmed'] = dict(demo_exit_unpatched=before, demo_exit_patched=after, suite=suite or 'agent-reported only (no log found)',
                             rebased=(patch != os.path.join(out, 'patch.diff')), checks=results,
                             detected_by=[c for c, r in results.items() if r['rc'] == 1])
    shutil.copy(patch, os.path.join(dst, 'patch.diff'))
    if patch != os.path.join(out, 'patch.diff'):
        shutil.copy(os.path.join(out, 'patch.diff'), os.path.join(dst, 'patch.orig.diff'))
    shutil.copy(demo, os.path.join(dst, 'demo.cpp'))
    json.dump(meta, open(os.path.join(dst, 'meta.json'), 'w'), indent=1)
finally:
    shutil.rmtree(work, ignore_errors=True)
