#!/usr/bin/env python3
"""usage: recheck_seeded.py [-j N] [seed_id ...]
Re-runs, for every stored seeded change (default: all), the quick check of its property (plus any other check
recorded earlier for it) against a scratch copy of /repo/include with the patch applied, and records the outcome in
seeded/<id>/meta.json under confirmed.recheck / confirmed.detected_by.  Nothing in /repo is touched."""
import sys, os, json, shutil, subprocess, tempfile, time
from concurrent.futures import ThreadPoolExecutor
args = sys.argv[1:]
jobs = 2
if args and args[0] == '-j':
    jobs = int(args[1]); args = args[2:]
ROOT = '/verif/seeded'
ids = args or sorted(os.listdir(ROOT))


def one(sid):
    d = os.path.join(ROOT, sid)
    meta = json.load(open(os.path.join(d, 'meta.json')))
    conf = meta.setdefault('confirmed', {})
    checks = [sid.split('-')[0]] + [c for c in (conf.get('checks') or {}) if c != sid.split('-')[0]]
    work = tempfile.mkdtemp(prefix='recheck.')
    try:
        shutil.copytree('/repo/include', os.path.join(work, 'include'))
        p = subprocess.run(['patch', '-p1', '--no-backup-if-mismatch', '-s', '-i', os.path.join(d, 'patch.diff')], cwd=work, capture_output=True, text=True)
        if p.returncode:
            conf['recheck'] = {'error': 'patch does not apply to the current tree: ' + (p.stdout + p.stderr)[-300:]}
            print(sid, 'PATCH DOES NOT APPLY')
        else:
            res = {}
            for c in checks:
                env = dict(os.environ, VERIF_REPO=work, VERIF_EVIDENCE_DIR=os.path.join(work, 'ev'))
                t0 = time.time()
                r = subprocess.run(['python3', '/verif/bin/check', c, '--tier', os.environ.get('TIER', 'quick')], capture_output=True, text=True, env=env)
                lines = [l for l in r.stdout.splitlines() if l.startswith(('VIOLATION', 'INFRA'))]
                res[c] = dict(rc=r.returncode, violations=len([l for l in lines if l.startswith('VIOLATION')]), first=(lines[0][:200] if lines else ''), wall_s=round(time.time() - t0))
            conf['recheck'] = dict(date=time.strftime('%Y-%m-%d %H:%M UTC', time.gmtime()), tier=os.environ.get('TIER', 'quick'), checks=res)
            conf['detected_by'] = sorted(c for c, r in res.items() if r['rc'] == 1 and r['violations'] > 0)
            print(sid, {c: (r['rc'], r['violations']) for c, r in res.items()}, '->', conf['detected_by'])
        json.dump(meta, open(os.path.join(d, 'meta.json'), 'w'), indent=1)
    finally:
        shutil.rmtree(work, ignore_errors=True)


with ThreadPoolExecutor(max_workers=jobs) as ex:
    list(ex.map(one, ids))
