#!/usr/bin/env python3
"""Writes spec/gen/C07TokMsgpack.tla: head/payload tokens of the token-level C07 generator for
MessagePack.  MsgpackTokens: every first-byte class of the format table (fix forms at their
boundary arguments, every type code 0xc0..0xdf at every width with boundary arguments, the
never-used code 0xc1), complete ext / timestamp objects, payload pieces incl. valid and invalid
UTF-8.  MsgpackSmallTokens: the reduced set used for the later token positions."""
import os


def be(n, w):
    return list(n.to_bytes(w, 'big'))


def ts64(nsec, sec):
    return be((nsec << 34) | sec, 8)


def ts96(nsec, sec):
    return be(nsec, 4) + list((sec & 0xffffffffffffffff).to_bytes(8, 'big'))


A, S = [], []

# ---- fix forms: positive fixint, fixmap, fixarray, fixstr, negative fixint (boundaries of each range)
A += [[0x00], [0x01], [0x7f]]
A += [[0x80], [0x81], [0x82], [0x8f]]
A += [[0x90], [0x91], [0x92], [0x9f]]
A += [[0xa0], [0xa1], [0xa2], [0xa3], [0xa4], [0xbf]]
A += [[0xe0], [0xf0], [0xff]]
# ---- nil, never used, false, true
A += [[0xc0], [0xc1], [0xc2], [0xc3]]
# ---- bin 8/16/32 heads
A += [[0xc4] + be(v, 1) for v in (0, 1, 2, 255)]
A += [[0xc5] + be(v, 2) for v in (0, 1, 2, 255, 256, 65535)]
A += [[0xc6] + be(v, 4) for v in (0, 1, 2, 65536, 0x7fffffff, 0x80000000, 0xffffffff)]
# ---- ext 8/16/32 heads (length, type); payload follows as tokens
for ty in (0, 1, 127, 128, 255):
    A += [[0xc7, n, ty] for n in (0, 1, 2)]
A += [[0xc7, 255, 1], [0xc7, 4, 255], [0xc7, 8, 255], [0xc7, 12, 255]]
for ty in (1, 127, 128, 255):
    A += [[0xc8] + be(n, 2) + [ty] for n in (0, 1, 2)]
    A += [[0xc9] + be(n, 4) + [ty] for n in (0, 1, 2)]
A += [[0xc8] + be(n, 2) + [5] for n in (256, 65535)]
A += [[0xc9] + be(n, 4) + [5] for n in (65536, 0x7fffffff, 0x80000000, 0xffffffff)]
# ---- float 32 / 64: +0, 1.0, -0, +inf, quiet NaN, signalling-pattern NaN, denormal, all ones
A += [[0xca] + be(v, 4) for v in (0, 0x3f800000, 0x80000000, 0x7f800000, 0x7fc00000, 0x7f800001, 1, 0xffffffff)]
A += [[0xcb] + be(v, 8) for v in (0, 0x3ff0000000000000, 0x8000000000000000, 0x7ff0000000000000, 0x7ff8000000000000,
                                  0x7ff0000000000001, 1, 0xffffffffffffffff)]
# ---- uint 8..64 and int 8..64 at the boundaries of every narrower width (non-minimal encodings included)
W1 = (0, 1, 0x7f, 0x80, 0xff)
W2 = (0, 1, 0x7f, 0x80, 0xff, 0x100, 0x7fff, 0x8000, 0xffff)
W4 = (0, 1, 0xff, 0xffff, 0x10000, 0x7fffffff, 0x80000000, 0xffffff80, 0xffffffff)
W8 = (0, 1, 0xffffffff, 0x100000000, 0x7fffffffffffffff, 0x8000000000000000, 0xffffffff80000000, 0xffffffffffffff80,
      0xffffffffffffffff)
for base in (0xcc, 0xd0):
    A += [[base] + be(v, 1) for v in W1]
    A += [[base + 1] + be(v, 2) for v in W2]
    A += [[base + 2] + be(v, 4) for v in W4]
    A += [[base + 3] + be(v, 8) for v in W8]
# ---- fixext 1/2/4/8/16 heads (type); payload follows as tokens
for code in (0xd4, 0xd5, 0xd6, 0xd7, 0xd8):
    A += [[code, ty] for ty in (0, 127, 128, 255)]
# ---- complete ext objects that need more payload than three tokens give
A += [[0xd6, 5, 1, 2, 3, 4], [0xd7, 5] + [7] * 8, [0xd8, 5] + [9] * 16, [0xd8, 255] + [0] * 16, [0xd8, 128] + [0] * 16]
# timestamp 32 (fixext 4, type -1)
A += [[0xd6, 255] + be(v, 4) for v in (0, 1, 0x7fffffff, 0x80000000, 0xffffffff)]
# timestamp 64 (fixext 8, type -1): nanoseconds in the upper 30 bits, seconds in the lower 34
NS = (0, 1, 999999999, 1000000000, 0x3fffffff)
A += [[0xd7, 255] + ts64(ns, sec) for ns in NS for sec in (0, 1, 0x3ffffffff)]
# timestamp 96 (ext 8, length 12, type -1): nanoseconds uint32, seconds int64
NS96 = (0, 1, 999999999, 1000000000, 0x3b9aca00 + 0x01000000, 0x3c000000, 0xffffffff)
A += [[0xc7, 12, 255] + ts96(ns, sec) for ns in NS96 for sec in (0, -1)]
A += [[0xc7, 12, 255] + ts96(ns, sec) for ns in (0, 999999999) for sec in (0x7fffffffffffffff, -0x8000000000000000)]
# the same payloads carried by the other ext formats (the timestamp layout is chosen by the data length)
A += [[0xc7, 4, 255] + be(1, 4), [0xc7, 8, 255] + ts64(1, 1), [0xc8, 0, 4, 255] + be(1, 4), [0xc8, 0, 12, 255] + ts96(1, 1),
      [0xc9, 0, 0, 0, 8, 255] + ts64(1000000000, 1), [0xc9, 0, 0, 0, 12, 255] + ts96(1000000000, 1)]
# ---- str 8/16/32 heads
A += [[0xd9] + be(v, 1) for v in (0, 1, 2, 3, 4, 31, 32, 255)]
A += [[0xda] + be(v, 2) for v in (0, 1, 2, 3, 4, 255, 256, 65535)]
A += [[0xdb] + be(v, 4) for v in (0, 1, 2, 3, 4, 65536, 0x7fffffff, 0x80000000, 0xffffffff)]
# ---- array 16/32, map 16/32 heads
for code in (0xdc, 0xde):
    A += [[code] + be(v, 2) for v in (0, 1, 2, 15, 16, 65535)]
    A += [[code + 1] + be(v, 4) for v in (0, 1, 2, 65536, 0x7fffffff, 0x80000000, 0xffffffff)]
# ---- payload pieces: ASCII, 2/3/4-byte UTF-8, lone continuation, 0xff, overlong, surrogate, > U+10FFFF, truncated lead
PAY = [[0x61], [0x62], [0xc3, 0xa9], [0xe2, 0x82, 0xac], [0xf0, 0x9f, 0x98, 0x80], [0x80], [0xff],
       [0xc0, 0x80], [0xed, 0xa0, 0x80], [0xf4, 0x90, 0x80, 0x80], [0xe2, 0x82], [0xed, 0x9f, 0xbf], [0xf4, 0x8f, 0xbf, 0xbf]]
A += PAY

# ---- reduced set for the later positions: one head per kind, the payload pieces that decide UTF-8 validity
S += [[0x00], [0x01], [0x80], [0x81], [0x82], [0x90], [0x91], [0x92], [0xa0], [0xa1], [0xa2], [0xc0], [0xc1], [0xc3], [0xff]]
S += [[0xc4, 1], [0xc7, 1, 1], [0xca, 0x3f, 0x80, 0, 0], [0xcc, 0x80], [0xd0, 0x80], [0xd1, 0xff, 0x7f], [0xd4, 1], [0xd4, 255],
      [0xd6, 255, 0, 0, 0, 1], [0xd9, 1], [0xd9, 2], [0xda, 0, 1], [0xdc, 0, 1], [0xde, 0, 1], [0xdd, 0, 0, 0, 1], [0xdf, 0, 0, 0, 1]]
S += [[0x61], [0x62], [0xc3, 0xa9], [0x80], [0xc0, 0x80], [0xed, 0xa0, 0x80], [0xe2, 0x82]]


def uniq(xs):
    out = []
    for x in xs:
        if x not in out:
            out.append(x)
    return out


def tla(name, toks):
    return name + ' == {\n' + ',\n'.join('  <<%s>>' % ', '.join(map(str, t)) for t in uniq(toks)) + '\n}\n'


out = '---------------------------- MODULE C07TokMsgpack ----------------------------\n'
out += '(* GENERATED by tools/gen_c07_tokens_msgpack.py -- do not edit by hand.             *)\n'
out += '(* Head/payload tokens of the MessagePack token-level generator (MC_C07, TokMode "tok"). *)\n'
out += tla('MsgpackTokens', A) + tla('MsgpackSmallTokens', S)
out += '=============================================================================\n'
open(os.path.join(os.path.dirname(os.path.abspath(__file__)), '..', 'spec', 'gen', 'C07TokMsgpack.tla'), 'w').write(out)
n, m = len(uniq(A)), len(uniq(S))
print('all', n, 'small', m, 'cases(MaxLen=3,ExhLen=1)', n * (1 + m + m * m), 'cases(MaxLen=3,ExhLen=2)', n * (1 + n + n * m))
