#!/usr/bin/env python3
import json, sys
pid = sys.argv[1]
props = {json.loads(l)['id']: json.loads(l) for l in open('/verif/properties.jsonl')}
p = props[pid]
t = open('/verif/tools/mutant_prompt.txt').read()
print(t.replace('@ID@', pid).replace('@TITLE@', p['title']).replace('@STATEMENT@', p['statement']).replace('@QUANT@', p['quantifier']['text']))
