#!/usr/bin/env python3
"""Regenerates MANIFEST.json from the table below (keeps it schema-valid)."""
import json, os, subprocess
ROOT = os.path.join(os.path.dirname(os.path.abspath(__file__)), '..')
props = [json.loads(l) for l in open(os.path.join(ROOT, 'properties.jsonl'))]

CHECKS = {
 'C02': dict(cat='model_checking', design='5/C02', technique='TLA+ pushdown spec of RFC 8259 (JsonText), equivalence with a second grammar-directed definition model-checked by TLC, TLC-enumerated cases with predicted verdict/value replayed through the parser entry points',
   text='TLC enumerates every viable prefix of JSON texts over a class-complete character alphabet and every short token sequence; the spec (written from RFC 8259, cross-checked inside TLC against a second recursive-descent definition) predicts accept/reject and the value; each case is replayed through basic_json::parse, ojson, json_reader+decoder, json_parser and stream parse under all comment/trailing-comma/nesting-limit options.',
   note='Bounded-exhaustive, not unbounded: texts up to the stated lengths. Fraction/exponent literal values are compared with glibc strtod. Unpaired-surrogate escapes and comments after the top-level value (allow_comments on) are declared dont-care.'),
 'C03': dict(cat='model_checking', design='5/C03', technique='TLA+ spec (JsonText) predicts verdict and event sequence; TLC-enumerated texts delivered in every chunk composition / source / observer and compared with the contiguous, spec-checked observation',
   text='Every TLC-enumerated text (valid, invalid, every strict prefix) is delivered contiguously (events compared with the spec prediction) and then in all 2^(n-1) chunk compositions to the push parser, through stream/iterator sources with every buffer size, and to cursor, filtered cursor, read_to and staj iterators; events on success and error code on failure must equal the contiguous observation.',
   note='JSON text only; bounded-exhaustive in text length (5/6 characters, 3/4 tokens). Error codes are compared differentially only. Inputs with no value at all are not compared for cursors.'),
 'C16': dict(cat='model_checking', design='5/C16', technique='TLA+ transcription of the RFC 7386 MergePatch pseudo-code; TLC enumerates all document pairs with predicted result (replayed), and validates every recorded from_diff output as a trace against the spec',
   text='TLC enumerates every ordered pair of a bounded document universe (depth 2, keys a/b, null/bool/int/string scalars, arrays) with Merge(target, patch) predicted by the spec; apply_merge_patch is replayed for json and ojson. Every diff produced by from_diff is recorded and validated by the TLC trace spec Trace_C16: the spec Merge applied to the recorded diff must equal the target.',
   note='Bounded-exhaustive over the stated universe (25.6k pairs quick, 1.6M thorough). The diff-law side condition is taken strictly (no null member anywhere in the target).'),
 'C14': dict(cat='model_checking', design='5/C14', technique='TLA+ spec of RFC 6901 (tokenizer state machine, printer, evaluation, edit operations, flatten); TLC checks parse/print round trips in the model and enumerates cases with predicted outcomes, replayed through the jsonpointer API',
   text='TLC enumerates every pointer string over a 7-character alphabet (tokenizer verdict, tokens, printed form) and every (document, token sequence, operation, create_if_missing) tuple over a bounded universe with the predicted outcome and resulting document; the harness replays them through the string and json_pointer APIs for json and ojson and requires a failed operation to leave the document unchanged. Flatten/unflatten are checked on documents with escape-needing keys.',
   note='Bounded-exhaustive over the stated universes. Edit-operation semantics beyond RFC 6901 come from the jsoncons reference documentation.'),
 'C15': dict(cat='model_checking', design='5/C15', technique='TLA+ spec of RFC 6902 as an atomic function plus an implementation-shaped undo-log machine; TLC proves refinement in bound, enumerates (document, patch) cases replayed through apply_patch, and validates recorded from_diff patches as traces',
   text='TLC (1) model-checks that the undo-log machine transcribed from apply_patch/operation_unwinder refines the atomic RFC 6902 Apply for every (document, patch) in bound, (2) enumerates every such pair with the predicted outcome, replayed through both apply_patch overloads for json and ojson with the atomicity requirement on failure, and (3) validates every patch recorded from from_diff with the spec Apply (Trace_C15).',
   note='Bounded: patches of up to 2 (3 in thorough) operations over 8 documents and the stated path/value sets; diff law over all pairs of a 119/150-document universe. Whole-document self-move excluded.'),
 'C09': dict(cat='model_checking', design='5/C09', technique='TLA+ Container model (one action per mutating operation, json/ojson ordering, moved-from unspecified); TLC checks model invariants and emits one conformance test per transition; relational laws stated in TLA+ and checked by TLC trace validation on recorded operator outcomes',
   text='(a) TLC explores the Container model (3 slots, 7 literal kinds, 3 keys) and emits every transition with a witness history and the expected state of every slot; the harness replays each history on real json/ojson values and compares projections, lookups and copies. (b) For all ordered pairs of 54 value descriptors and all integer conversions the harness records what ==, !=, <, <=, >, >=, dump, is<T>, as<T> return; Trace_C09 validates the laws of ValueLaws.tla (reflexive, symmetric, agreement with ordering and serialization, is=>as exact).',
   note='Histories up to 4 (quick) / 5 (thorough) operations. Cross-kind ordering itself is not predicted, only the laws the property states; NaN is exempt from the order laws.'),
 'C07': dict(cat='model_checking', design='5/C07', technique='TLA+ reference decoders written from RFC 8949 / the MessagePack, UBJSON and BSON specifications; TLC enumerates byte strings and head/payload token sequences with predicted verdict and value, replayed through the real decoders',
   text='For each format TLC enumerates byte strings (all first bytes x representative later bytes; every strict prefix) and token sequences (every type code at every width with boundary arguments, reserved codes, indefinite forms, break codes, valid/invalid UTF-8) and the TLA+ reference decoder predicts well-formedness and the decoded value; the harness requires the same verdict and value from decode_X, reader+json_decoder, stream source and cursor.',
   note='Bounded input length (3-4 bytes / 3 tokens up to 27 bytes). Values without a documented jsoncons mapping are compared on the verdict only.'),
 'C06': dict(cat='model_checking', design='5/C06', technique='TLC-enumerated boundary values encoded/decoded by the real codecs; every recorded (value, bytes, decoded) execution validated by a TLC trace spec that decodes the bytes with the independent TLA+ reference decoder',
   text='TLC enumerates data-model values at every integer width, float exactness, string/array/map length boundary plus the CBOR string-reference family; the harness records what the real encoders emit (DOM, streaming, pack_strings) and what the real decoder reads back; Trace_C06 accepts a line only if the TLA+ reference decoder reads the bytes completely to the documented image of the value (float widening, any NaN, unordered maps, resolved string references) and the library decode equals it.',
   note='Formats validated: see evidence coverage.formats (CBOR first; MessagePack/UBJSON/BSON join when their reference decoders are integrated). Typed-array and semantic-tag round trips are not yet in the universe.'),
 'C08': dict(cat='model_checking', design='5/C08', technique='TLA+ PDA of the visitor event grammar enumerates well-formed event sequences with right/wrong/absent declared lengths; recorded encoder outputs validated by a TLC trace spec using the independent reference decoders and the RFC 8259 recogniser',
   text='TLC enumerates every complete, grammatical event sequence up to 6 (7) events; the harness pushes each into the real encoders and records output or error; Trace_C08 accepts only an error or an output that the independent TLA+ decoder reads completely back to exactly the pushed value (JSON text: strict JsonText acceptance and documented image). All inputs accepted in the C07 CBOR byte space are additionally decoded and re-written as compact/pretty JSON text, which must be valid RFC 8259.',
   note='Encoders judged: see evidence coverage.encoders. CSV/TOON encoders and typed-array events are not in this check.'),
 'C10': dict(cat='model_checking', design='5/C10', technique='TLA+ Limits module (verdict functions per container-opening path, max_items, claimed-length headers and memory bound) enumerated by TLC; verdicts replayed through decoders and encoders; allocation meter and fixed-stack thread as sensors',
   text='TLC enumerates format x container-opening path x limit x depth around the limit for decoders and encoders, UBJSON max_items x announced counts, and claimed-length headers x payloads, each with the predicted verdict (accept iff depth <= limit; refuse iff count > max_items; claims beyond supply are errors); the harness replays them, measures the allocation peak against the spec bound, and runs copy/compare/dump/destroy of nested values (depth 1024; destroy at 10^6) on a 1 MiB stack.',
   note='Heap peak and stack use are harness measurements with deliberately loose constants. Limits 0..16 (quick) / ..1024 (thorough).'),
 'C19': dict(cat='fault_enumeration', design='5/C19', technique='TLA+ AllocLedger protocol (model-checked) + TLC trace validation of allocation events recorded from forked executions with the n-th allocation of the operation failing, for every n',
   text='For each of 75 (scenario, input) pairs enumerated by TLC and every n in 1..N the harness forks an execution in which the n-th allocation inside the operation window throws std::bad_alloc (global operator new and a stateful tracking allocator), recording Reset/Alloc/Free/Begin/Fail/End/Probe/Destroyed events; Trace_C19 replays them through the AllocLedger actions: frees must match a live block with the same size and an equal allocator, the failure must surface as bad_alloc, survivors must be usable (and equal to the pre-call state for apply_patch and read-only queries), nothing may be live after destruction; a crash has no action.',
   note='One-shot failures; window = the operation; allocations made by destructors (flatten_and_destroy, via the guarded destroy_scope hook) are not failed. Quick tier thins very long operations to 150 failure points per pair.'),
 'C12': dict(cat='model_checking', design='5/C12', technique='TLA+ JSONPath evaluator (selectors, slices per RFC 9535 normalisation, filters, recursive descent, unions, parent) with un-parser; TLC checks path-resolution/option/slice/replace laws as invariants and enumerates (document, query) cases replayed through json_query, compiled expressions, callbacks, json_replace',
   text='TLC builds queries segment by segment over a bounded document universe, carrying the spec evaluation; invariants check that every result path resolves to its value, nodups/sort laws, the slice closed form and replace laws; each (document, query) case with predicted (normalized path, value) list is replayed through json_query (values/paths/callback), make_expression.evaluate (twice), select_paths, result options, get/parse/to_string of every returned path, json_replace/update, for json and ojson in up to 4 notations. The spec is first validated against jsoncons own test_data (342 cases reproduced).',
   note='Built by a sub-agent under the lead engineer review; regex, arithmetic and most functions are excluded; order compared as multiset where an object with >= 2 members was enumerated. See notes/C12.md for dont-care classes.'),
}
NA = {}

def main():
    checks = []
    for pid in sorted(CHECKS):
        c = CHECKS[pid]
        checks.append(dict(property_id=pid, quick_cmd='python3 bin/check %s --tier quick' % pid,
                           thorough_cmd='python3 bin/check %s --tier thorough' % pid,
                           evidence_file='/verif/evidence/%s.json' % pid,
                           replay_cmd_template='python3 bin/check %s --replay {path}' % pid,
                           engine='tlc+harness',
                           level_claimed=dict(category=c['cat'], text=c['text'], design_ref='DESIGN.md section ' + c['design']),
                           level_note=c['note'], technique=c['technique']))
    hooks = [l.split()[0] for l in open(os.path.join(ROOT, 'hooks_commits.txt')).read().split('\n') if l.strip()] if os.path.exists(os.path.join(ROOT, 'hooks_commits.txt')) else []
    m = dict(version=1, setup_cmd='python3 bin/check setup',
             hooks=dict(guard='JSONCONS_VERIF',
                        enable='harnesses compile /repo/include (header-only) with -DJSONCONS_VERIF; see lib/vf.py build()',
                        baseline_off_cmd='cmake --build /repo/_build -j16 && ctest --test-dir /repo/_build -j8 --timeout 900',
                        source_commits=hooks, add_only=True),
             engines=[dict(name='tlc+harness', path='bin/check', serves_properties=sorted(CHECKS),
                           kind_free_text='TLA+ specifications under spec/ checked and enumerated by TLC; cases replayed / traces recorded by C++ conformance harnesses under harness/ built from /repo working tree; traces validated by TLC trace specs')],
             checks=checks,
             notes='Model-based verification with explicit TLA+ specifications; see DESIGN.md. known_findings.jsonl lists genuine defects (fixed or known).',
             not_applicable=[dict(property_id=p['id'], reason=NA.get(p['id'], 'check not built yet (work in progress; DESIGN.md section 9 build order)'))
                             for p in props if p['id'] not in CHECKS])
    json.dump(m, open(os.path.join(ROOT, 'MANIFEST.json'), 'w'), indent=1)
    print('MANIFEST: %d checks, %d not_applicable' % (len(checks), len(m['not_applicable'])))

if __name__ == '__main__':
    main()
