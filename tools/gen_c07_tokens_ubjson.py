#!/usr/bin/env python3
"""Writes spec/gen/C07TokUbjson.tla: head/payload tokens for the token-level C07 generator of
UBJSON (Draft 12).  UbjsonTokens: every type marker; every integer / float type with boundary
arguments (these double as lengths and counts after S, H, '#' and as object keys' lengths);
string / high-precision / char heads at every length width with their payload; container heads in
all four forms (plain, '#', '$'+'#', '$' alone) incl. composite optimized heads so that three tokens
reach complete optimized containers; reserved / retired marker bytes; payload pieces (valid and
invalid UTF-8, JSON-number pieces).  UbjsonSmallTokens: the reduced set for the later positions."""
import os

def be(n, w): return list(n.to_bytes(w, 'big'))
def s(x): return [ord(c) for c in x]

allt, small = [], []

# --- marker-only tokens: all 20 markers of the type reference -----------------------------------
markers = s('ZNTFiUIlLdDHCS[]{}$#')
allt += [[m] for m in markers]
# reserved / retired bytes: NUL, 0xff, markers of drafts 8/9 (B, s, h, a, o, A, O, E), neighbours of valid markers
allt += [[0], [255], [127], [128]] + [[c] for c in s('BshaEXt')]

# --- numeric value types at every width with boundary arguments ---------------------------------
ints = {
    'i': (1, [0, 1, 2, 3, 127, 128, 255]),
    'U': (1, [0, 1, 2, 127, 128, 255]),
    'I': (2, [0, 1, 2, 255, 256, 0x7fff, 0x8000, 0xffff]),
    'l': (4, [0, 1, 65536, 0x7fffffff, 0x80000000, 0xffffffff]),
    'L': (8, [0, 1, 0x100000000, 0x7fffffffffffffff, 0x8000000000000000, 0xffffffffffffffff]),
}
for m, (w, vals) in ints.items():
    allt += [s(m) + be(v, w) for v in vals]
allt += [s('d') + be(v, 4) for v in (0, 0x3f800000, 0x80000000, 0x7f800000, 0x7fc00000, 0xff7fffff, 0x00000001)]
allt += [s('D') + be(v, 8) for v in (0, 0x3ff0000000000000, 0x8000000000000000, 0x7ff0000000000000, 0x7ff8000000000000, 0xffefffffffffffff, 1)]

# --- char --------------------------------------------------------------------------------------
allt += [s('C') + [c] for c in (0, 0x61, 0x7f, 0x80, 0xc3, 0xff)]

# --- string heads: 'S' + length at every width, and complete short strings ----------------------
for m, (w, _) in ints.items():
    for n in ((0, 1, 2) if m == 'i' else (0, 1)):
        allt.append(s('S') + s(m) + be(n, w))
allt += [s('S') + s('i') + [0x80], s('S') + s('i') + [0xff], s('S') + s('I') + [0x80, 0], s('S') + s('l') + [0xff] * 4, s('S') + s('L') + [0x80] + [0] * 7,
         s('S') + s('L') + [0x7f] + [0xff] * 7, s('S') + s('U') + [0xff], s('S') + s('l') + be(0x7fffffff, 4)]
allt += [s('SU') + [1, 0x61], s('Si') + [2, 0xc3, 0xa9], s('Si') + [1, 0x80], s('Si') + [3, 0xed, 0xa0, 0x80], s('Si') + [3, 0xe2, 0x82, 0xac],
         s('Si') + [4, 0xf0, 0x9f, 0x98, 0x80], s('Si') + [4, 0xf4, 0x90, 0x80, 0x80], s('Si') + [2, 0xc0, 0x80], s('SS'), s('SZ'), s('Sd'), s('SN')]

# --- high-precision numbers: valid and invalid JSON number texts --------------------------------
for txt in ('0', '1', '-1', '-0', '10', '1.5', '1E+5', '1.5e-3', '123456789012345678901234567890',
            '', '-', '01', '1.', '.5', '1e', '+1', 'a', '1a', ' 1', 'NaN'):
    allt.append(s('Hi') + [len(txt)] + s(txt))
allt += [s('HU') + [1, 0x31], s('HI') + [0, 1, 0x31], s('Hl') + [0, 0, 0, 1, 0x31], s('HL') + [0] * 7 + [1, 0x31], s('Hi') + [1], s('Hi') + [2], s('Hi') + [0xff],
         s('Hi') + [2, 0xc3, 0xa9], s('Hi') + [1, 0x80], s('HZ'), s('HS')]

# --- keys (object member names: length + bytes, no 'S') -----------------------------------------
keys = [s('i') + [1, 0x61], s('i') + [1, 0x62], s('U') + [1, 0x61], s('I') + [0, 1, 0x63], s('l') + [0, 0, 0, 1, 0x64], s('L') + [0] * 7 + [1, 0x65],
        s('i') + [2, 0xc3, 0xa9], s('i') + [1, 0x80], s('i') + [2, 0xc3, 0x28], s('Si') + [1, 0x61]]
allt += keys

# --- optimized container parameters -------------------------------------------------------------
types_ok = s('ZNTFiUIlLdDHCS[{')
types_bad = s(']$#X') + [0]
allt += [s('$') + [t] for t in types_ok + types_bad]
counts = [s('#') + s(m) + be(n, w) for m, (w, _) in ints.items() for n in ((0, 1, 2) if m == 'i' else (0, 1))]
counts += [s('#i') + [3], s('#i') + [0x80], s('#i') + [0xff], s('#U') + [0xff], s('#I') + [0x80, 0], s('#l') + [0x80, 0, 0, 0], s('#L') + [0x80] + [0] * 7,
           s('#l') + be(65536, 4), s('#l') + be(0x7fffffff, 4), s('#L') + [0x7f] + [0xff] * 7, s('#Z'), s('#S'), s('#d'), s('#N'), s('##'), s('#$')]
allt += counts
# composite heads: container + parameters in one token
for o in s('[{'):
    for n in (0, 1, 2, 3):
        allt.append([o] + s('#i') + [n])
    allt.append([o] + s('#U') + [1]); allt.append([o] + s('#I') + [0, 2]); allt.append([o] + s('#l') + [0, 0, 0, 1]); allt.append([o] + s('#L') + [0] * 7 + [2])
    for t in types_ok:
        for n in ((0, 1, 2) if t in s('ZNiS[') else (0, 1) if o == ord('[') else (1,)):
            allt.append([o] + s('$') + [t] + s('#i') + [n])
    for t in s(']#X'):
        for n in (0, 1):
            allt.append([o] + s('$') + [t] + s('#i') + [n])
    for t in (s('ZTN') if o == ord('[') else s('Z')):     # payload-free types: counts around RepMax, beyond max_items, beyond 2^31
        if o == ord('[') and t == ord('Z'): allt.append([o] + s('$') + [t] + s('#I') + be(300, 2))
        if o == ord('['): allt.append([o] + s('$') + [t] + s('#I') + be(301, 2))
        allt.append([o] + s('$') + [t] + s('#l') + be(0x7fffffff, 4))
        allt.append([o] + s('$') + [t] + s('#L') + [0x7f] + [0xff] * 7)
    allt.append([o] + s('$i#U') + [2]); allt.append([o] + s('$U#I') + [0, 2]); allt.append([o] + s('$i#l') + [0, 0, 0, 2]); allt.append([o] + s('$i#L') + [0] * 7 + [2])
    allt.append([o] + s('$i')); allt.append([o] + s('$i$')); allt.append([o] + s('#i') + [1] + s('$i')); allt.append([o] + s('$i#i') + [0xff]); allt.append([o] + s('$i#d'))
# complete tiny containers
allt += [s('[]'), s('{}'), s('[N]'), s('[Z]')]
# optimized bodies without the container marker (elements of [$[# and [${# containers)
allt += [s('$i#i') + [1], s('$Z#i') + [1], s('$i#i') + [2]]

# --- payload pieces ----------------------------------------------------------------------------
payload = [[0x61], [0xc3, 0xa9], [0x80], [0xff], [0x31], [0x2d], [0x2e], [0x00], [0x01], [0x02], [0x7f]]
allt += payload

# --- reduced set for the later positions ---------------------------------------------------------
small += [[m] for m in s('ZNT[]{}$#i')] + [[ord('X')]]
small += [s('i') + [0], s('i') + [1], s('i') + [2], s('i') + [0xff]]
small += [s('Si') + [1, 0x61], s('Si') + [1, 0x80], s('Hi') + [1, 0x31], s('Hi') + [1, 0x61], s('C') + [0x61]]
small += [s('i') + [1, 0x61], s('i') + [1, 0x62]]
small += [s('$i'), s('$Z'), s('#i') + [0], s('#i') + [1]]
small += [s('[#i') + [1], s('{#i') + [1], s('[$i#i') + [1], s('[$Z#i') + [2], s('{$i#i') + [1], s('{$Z#i') + [1], s('[$N#i') + [1]]
small += [[0x61], [0xc3, 0xa9], [0x80], [0x01]]
small += [s('$i#i') + [1]]

def uniq(xs):
    out, seen = [], set()
    for x in xs:
        if tuple(x) not in seen:
            seen.add(tuple(x)); out.append(x)
    return out
def tla(name, toks):
    return name + ' == {\n' + ',\n'.join('  <<%s>>' % ', '.join(map(str, t)) for t in uniq(toks)) + '\n}\n'
out = '---------------------------- MODULE C07TokUbjson ----------------------------\n(* GENERATED by tools/gen_c07_tokens_ubjson.py -- do not edit by hand. *)\n'
out += tla('UbjsonTokens', allt) + tla('UbjsonSmallTokens', small)
out += '=============================================================================\n'
open(os.path.join(os.path.dirname(os.path.abspath(__file__)), '..', 'spec', 'gen', 'C07TokUbjson.tla'), 'w').write(out)
a, b = len(uniq(allt)), len(uniq(small))
print(a, b, 'tok_q(ExhLen1,MaxLen3)=%d' % (a + a * b + a * b * b), 'tok_t(ExhLen2,MaxLen3)=%d' % (a + a * a + a * a * b))
