#!/bin/bash
# usage: tools/try_mutant.sh <patch.diff> <Cnn> [<Cnn> ...]   (runs quick checks against a scratch mutated copy of /repo/include)
set -u
PATCH=$1; shift
M=/tmp/mut.$$
rm -rf $M; mkdir -p $M; cp -r /repo/include $M/
( cd $M && patch -p1 --no-backup-if-mismatch -s < "$PATCH" ) || { echo "PATCH DID NOT APPLY"; rm -rf $M; exit 3; }
for c in "$@"; do
  echo "== $c against $(basename $(dirname $PATCH))/$(basename $PATCH)"
  VERIF_REPO=$M VERIF_EVIDENCE_DIR=/tmp/mut-evidence python3 /verif/bin/check $c --tier ${TIER:-quick} 2>/dev/null | grep -E "VIOLATION|KNOWN-FINDING|INFRA" | head -5
  echo "rc=${PIPESTATUS[0]}"
done
rm -rf $M
