#!/usr/bin/env python3
"""Splices tools/design_asbuilt.md (section 11) into DESIGN.md, filling the seeded-change table from seeded/*/meta.json."""
import json, os, re
ROOT = '/verif'
rows = ['| Id | Seeded change (files) | Needs, to manifest | Detected by (quick tier) |', '|---|---|---|---|']
n = det = 0
for sid in sorted(os.listdir(os.path.join(ROOT, 'seeded'))):
    m = json.load(open(os.path.join(ROOT, 'seeded', sid, 'meta.json')))
    c = m.get('confirmed', {})
    def cut(t, k):
        t = re.sub(r'\s+', ' ', str(t or '')).replace('|', '/')
        return t if len(t) <= k else t[:k - 3] + '...'
    d = c.get('detected_by') or []
    n += 1
    det += bool(d)
    note = c.get('note') or ''
    rows.append('| %s | %s | %s | %s |' % (sid, cut(m.get('summary'), 230), cut(m.get('needs_to_manifest'), 160),
                                         (', '.join(d) if d else '**not detected**') + ((' - ' + cut(note, 200)) if note else '')))
table = '\n'.join(rows) + '\n\n%d of %d seeded changes are detected by the quick tier of at least one registered check.' % (det, n)
kf = [json.loads(l) for l in open(os.path.join(ROOT, 'known_findings.jsonl')) if l.strip() and not l.startswith('#')]
def cell(t, k=260):
    t = re.sub(r'\s+', ' ', str(t or '')).replace('|', '/')
    return t if len(t) <= k else t[:k - 3] + '...'
fixed = [e for e in kf if e['status'] == 'fixed']
ftab = ['| Commit | Property | Defect (failing input / history) |', '|---|---|---|'] + ['| %s | %s | %s |' % (e['commit'], e['property'], cell(e['what'], 330)) for e in fixed]
ftable = '\n'.join(ftab) + '\n\n%d defects repaired (%d fix commits).' % (len(fixed), len({e['commit'] for e in fixed}))
known = [e for e in kf if e['status'] == 'known']
klist = []
for prop in sorted({e['property'] for e in known}):
    es = [e for e in known if e['property'] == prop]
    klist.append('* **%s (%d)**' % (prop, len(es)))
    klist += ['  * ' + cell(e['what'], 300) for e in es]
ab = open(os.path.join(ROOT, 'tools', 'design_asbuilt.md')).read().replace('@SEEDED_TABLE@', table).replace('@FIXED_TABLE@', ftable).replace('@KNOWN_LIST@', '\n'.join(klist))
p = os.path.join(ROOT, 'DESIGN.md')
s = open(p).read()
a = s.index('## 11. As built')
k = s.index('## Appendix A.')
s = s[:a] + ab + '\n---------------------------------------------------------------------------------------------------\n\n' + s[k:]
open(p, 'w').write(s)
print('DESIGN.md: section 11 regenerated, %d/%d seeded changes detected' % (det, n))
