#!/usr/bin/env python3
"""Splices tools/design_asbuilt.md (section 11) into DESIGN.md, filling the seeded-change table from seeded/*/meta.json."""
import json, os, re
ROOT = '/verif'
rows = ['| Id | Seeded change (files) | Needs, to manifest | Detected by (quick tier) |', '|---|---|---|---|']
n = det = 0
for sid in sorted(os.listdir(os.path.join(ROOT, 'seeded'))):
    m = json.load(open(os.path.join(ROOT, 'seeded', sid, 'meta.json')))
    c = m.get('confirmed', {})
    def cut(t, k):
        t = re.sub(r'\s+', ' ', str(t or '')).replace('|', '/')
        return t if len(t) <= k else t[:k - 3] + '...'
    d = c.get('detected_by') or []
    n += 1
    det += bool(d)
    note = c.get('note') or ''
    rows.append('| %s | %s | %s | %s |' % (sid, cut(m.get('summary'), 230), cut(m.get('needs_to_manifest'), 160),
                                         (', '.join(d) if d else '**not detected**') + ((' - ' + cut(note, 200)) if note else '')))
table = '\n'.join(rows) + '\n\n%d of %d seeded changes are detected by the quick tier of at least one registered check.' % (det, n)
DESCR = {
 'C01': ('V', 'JsonValue universe x option vectors x json / ojson / wjson / wojson; Trace_C01 re-lexes every produced text with the JsonText PDA, requires ValueOf(text) = value, the option post-conditions (escapes, line length, indentation), and byte-identical re-serialisation'),
 'C02': ('G', 'JsonText: every viable prefix <= 6 chars over 27 classes, token sequences, deep nests, whole-member objects (duplicate keys at every position), extra tokens (surrogate-pair corners, low-byte trap characters) x {comments, trailing comma, depth limits} x decode-option modes (lossless_number, lossless_bignum off, nan/inf strings) x 5 char + 5 wchar_t entry points'),
 'C03': ('G (differential)', 'the same texts x all 2^(n-1) chunk compositions x 2 push protocols, stream buffer sizes 1..n+1, cursors, read_to, staj iterators; binary: C07 byte spaces x 23 deliveries, and documents with two items longer than the 16384-byte source chunk; CSV: every string <= 6 chars over 7 characters x 6 option sets x every delivery'),
 'C04': ('V', 'BigNat oracle; Trace_C04 validates bigint arithmetic via identities, conversions digit for digit, literal classes, round-half-even doubles, double print/parse round trips incl. every binary64 exponent x edge significands'),
 'C05': ('G + V', 'ApiOutcome protocol; inputs of all other generators + truncations / substitutions through every decoder / compiler entry point, a CBOR tag family (typed / multi-dimensional arrays, bignums, decimal fractions with boundary arguments), and values x option sets through 12 encoder entry points, under ASan+UBSan+LSan with a CPU-time watchdog (non-termination); sampled outcome traces validated by Trace_C05'),
 'C06': ('V', 'BinModel universe x 4 formats x routes; Trace_C06: the reference decoder reads the output completely to the documented image and the library reads it back; stringref family; long-length family (BinHeads: header forms at 2^8 / 2^15 / 2^16, Trace_C06big); string references next to typed arrays and encoder reuse after reset (Trace_C06pta); semantic-tag family (BinTags / Trace_C06tags: bignum, decimal fraction, bigfloat, epoch tags, base-N hints x 4 formats, documented image per format)'),
 'C07': ('G', 'Cbor / Msgpack / Ubjson / Bson reference decoders: every byte string with 2 exhaustive leading bytes + representative later bytes, token sequences, length-boundary representatives, long-length header forms (exact / short / bad length field), [tag(item), sibling] for every tag head x content kind (a tag applies to one item; non-transforming tags are transparent); verdict and value predicted'),
 'C08': ('V', 'Events PDA: every complete event sequence <= MaxEv x 5 encoders (declared lengths respected / violated); Trace_C08 re-decodes the output with the reference decoders / JsonText; transcoding of all accepted C07 inputs; tagged-event family (Trace_C08tags: every scalar event x semantic tag x 5 encoders, output must be well-formed in the target format or an error reported)'),
 'C09': ('G per transition + V', 'Container: every edge reachable within MaxHist operations (VIEW + ACTION_CONSTRAINT) incl. erase by iterator / iterator range on arrays and objects, hinted overloads at every hint position, json and ojson; ValueLaws over 59 x 59 descriptors (compare is a total order consistent with ==, hash, swap)'),
 'C10': ('G', 'Limits: 20 opening paths x limits x depths around the limit; encoders fed by events and through dump / encode_X, also after closed siblings; UBJSON max_items; claimed lengths vs an allocation meter for json and typed decode, from a vector, an iterator range and a stream (header at offset 0 and ending at / next to a 16384-byte chunk boundary); deep values on a 1 MiB stack; sibling families'),
 'C11': ('G', 'JsonSchema validator (validated against the official suite and python-jsonschema on the whole space): grammar-built schemas per dialect incl. annotation scoping, dependency maps and exact decimals (fractional bounds, divisors, enum / const spellings) x steered instances; Uri (RFC 3986, validated on the RFC examples): base URI x nested $id x reference with the identifier addressed and near misses, JSON Pointer fragments with ~ escapes and percent-encoding'),
 'C12': ('G', 'JsonPath evaluator (validated against the jsoncons jsonpath reference data): segments, slices, unions incl. current- and root-anchored path members, filters (and, where the functions family is in, built-in functions and arithmetic) x documents x notations x result options x 7 entry points; a compiled expression is evaluated on another document first'),
 'C13': ('G', 'Jmespath evaluator (validated against the JMESPath compliance corpus): expression trees x documents, functions x typed argument tuples, slices, sort stability, exact decimals (abs / ceil / floor / avg / sum / sort / comparisons / to_number over fractions)'),
 'C14': ('G', 'JsonPointer: all pointer strings <= n over 7 chars; (doc, tokens, op, create_if_missing); flatten / unflatten'),
 'C15': ('G + model + V', 'JsonPatch: every op sequence <= MaxOps extended while it succeeds (failure at every position); MC_C15impl refinement of the undo-log loop; diff law'),
 'C16': ('G + V', 'MergePatch: all (target, patch) pairs of the depth-2 universe; from_diff traces validated by Trace_C16'),
 'C17': ('G', 'Reflect: 80 types (every traits macro flavour, std containers, tuple / pair / array / bitset / variant / optional / smart pointers / chrono, 64-bit and floating kinds) x values (4 formats, 3 routes) and x fault-derived documents (verdict predicted)'),
 'C18': ('G + V', 'Csv (RFC 4180 + jsoncons options): options x tables (written as objects / columns and as rows with the names first); TOON: round-trip law over trees, strings / keys in every position, and primitives (null, booleans, integers, decimals) in every position'),
 'C19': ('V', 'AllocLedger: fork per (scenario, n) over 38 scenarios (parse, copy, assign, insert, merge, erase, sort, dump, four binary formats, CSV, TOON, JSONPath query / replace, JMESPath, pointer, patch, merge patch, diffs, schema, cursor, typed encode / decode, stateful allocators): the n-th allocation fails; Trace_C19 requires ledger balance, no double free, size-matched deallocation, strong / basic guarantee per scenario'),
 'C20': ('model + V', 'SharedReaders model-checked; TSan harness with TLC-generated thread / stream / skew assignments over built-in operations, a curated artefact pool (every format, every JSONPath / JMESPath built-in, all drafts) and a pool sampled from the C11 / C12 cases; Trace_C20'),
}
def human(n):
    n = int(n or 0)
    return '%.1f M' % (n / 1e6) if n >= 1e6 else ('%d k' % round(n / 1e3) if n >= 10000 else str(n))
srows = ['| Id | Binding | Spec -> what TLC enumerates / what is bound (quick tier) | cases / evaluations | quick wall (cached cases) |', '|---|---|---|---|---|']
for pid in sorted(DESCR):
    ev = {}
    try:
        ev = json.load(open(os.path.join(ROOT, 'evidence', pid + '.json')))
    except Exception:
        pass
    cov = ev.get('coverage', {})
    srows.append('| %s | %s | %s | %s / %s | %s s (%s tier, %s known findings matched) |' % (pid, DESCR[pid][0], DESCR[pid][1], human(cov.get('traces_validated_against_impl')), human(cov.get('evaluations')),
                 int(ev.get('wall_s', 0) or 0), ev.get('tier', '?'), ev.get('known_findings_matched', 0)))
stable = '\n'.join(srows)
kf = [json.loads(l) for l in open(os.path.join(ROOT, 'known_findings.jsonl')) if l.strip() and not l.startswith('#')]
def cell(t, k=260):
    t = re.sub(r'\s+', ' ', str(t or '')).replace('|', '/')
    return t if len(t) <= k else t[:k - 3] + '...'
fixed = [e for e in kf if e['status'] == 'fixed']
ftab = ['| Commit | Property | Defect (failing input / history) |', '|---|---|---|'] + ['| %s | %s | %s |' % (e['commit'], e['property'], cell(e['what'], 330)) for e in fixed]
ftable = '\n'.join(ftab) + '\n\n%d defects repaired (%d fix commits).' % (len(fixed), len({e['commit'] for e in fixed}))
known = [e for e in kf if e['status'] == 'known']
klist = []
for prop in sorted({e['property'] for e in known}):
    es = [e for e in known if e['property'] == prop]
    klist.append('* **%s (%d)**' % (prop, len(es)))
    klist += ['  * ' + cell(e['what'], 300) for e in es]
ab = open(os.path.join(ROOT, 'tools', 'design_asbuilt.md')).read().replace('@SEEDED_TABLE@', table).replace('@FIXED_TABLE@', ftable).replace('@KNOWN_LIST@', '\n'.join(klist)).replace('@STATUS_TABLE@', stable)
p = os.path.join(ROOT, 'DESIGN.md')
s = open(p).read()
a = s.index('## 11. As built')
k = s.index('## Appendix A.')
s = s[:a] + ab + '\n---------------------------------------------------------------------------------------------------\n\n' + s[k:]
open(p, 'w').write(s)
print('DESIGN.md: section 11 regenerated, %d/%d seeded changes detected' % (det, n))
