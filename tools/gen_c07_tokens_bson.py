#!/usr/bin/env python3
"""Writes spec/gen/C07TokBson.tla: tokens of the token-level C07 generator for BSON.

A BSON document starts with its total size, so the first token of an input is a
"document opener": int32(size) + one complete element, where the size is exact for
"opener + 0x00" (d = 0) or leaves room for exactly one more small token (d = its size),
or is off by one.  The later tokens (BsonSmallTokens) are the document terminator, small
complete elements (new key, duplicate key, array keys), container heads and payload bytes.

  BsonTokens       openers for every type code 0x00..0xFF (every defined type at its
                   boundary payloads, deprecated types, reserved codes), names and strings
                   with valid / invalid UTF-8, nested documents and arrays, wrong sizes;
                   every defined-type element again as the first element of an array;
                   bare size prefixes at boundary values
  BsonSmallTokens  the reduced set for the later positions
  BsonSampleDocs   complete single-element documents (used by C07RepBson.tla for the
                   strict-prefix and single-byte-mutation families)
  BsonCorpusDocs   authoritative documents: the bsonspec.org examples, the examples of jsoncons'
                   bson.md, libbson's test documents /repo/test/bson/input/test*.bson (read when
                   this script runs; the generated module is self-contained)
"""
import os, struct

def i32(n): return list(struct.pack('<i', n)) if n < 2**31 else list(struct.pack('<I', n))
def i64(n): return list(struct.pack('<q', n)) if n < 2**63 else list(struct.pack('<Q', n))
def f64(x): return list(struct.pack('<d', x))
def cstr(bs): return list(bs) + [0]
def string(bs, term=0, delta=0): return i32(len(bs) + 1 + delta) + list(bs) + [term]
def el(t, payload, name=b'a'): return [t] + cstr(name) + list(payload)
def doc(elems, delta=0, term=0):
    body = [x for e in elems for x in e]
    return i32(4 + len(body) + 1 + delta) + body + [term]

NULL_B = el(0x0a, [], b'b')
# ---------------------------------------------------------------- complete elements, key "a"
E = []          # (label, element bytes)
def add(label, t, payload, name=b'a'): E.append((label, el(t, payload, name)))

# 0x01 double
for lab, bits in [('0', 0), ('1', 0x3ff0000000000000), ('-0', 0x8000000000000000), ('inf', 0x7ff0000000000000),
                  ('nan', 0x7ff8000000000000), ('denorm', 1), ('ones', 0xffffffffffffffff), ('1.5', 0x3ff8000000000000)]:
    add('double ' + lab, 0x01, i64(bits))
# 0x02 string / 0x0d code / 0x0e symbol
STR = [b'', b'a', b'\xc3\xa9', b'\xe2\x82\xac', b'\xf0\x9f\x98\x80', b'a\x00b', b'\x80', b'\xff', b'\xc0\x80', b'\xed\xa0\x80',
       b'\xc3', b'\xe2\x82', b'\xf4\x90\x80\x80', b'\xf8\x88\x80\x80\x80', b'\xef\xbf\xbf', b'\xe0\x9f\xbf', b'\xf0\x8f\xbf\xbf']
for s in STR: add('string', 0x02, string(s))
for s in [b'', b'a', b'\x80', b'\xc3\xa9']:
    add('code', 0x0d, string(s)); add('symbol', 0x0e, string(s))
for t in (0x02, 0x0d, 0x0e):
    add('string bad terminator', t, string(b'a', term=1))
    add('string bad terminator', t, string(b'', term=0xff))
    add('string size 0', t, i32(0))
    add('string size 0 + 00', t, i32(0) + [0])
    add('string size -1', t, i32(-1) + [0])
    add('string size one short', t, string(b'ab', delta=-1))      # terminator position holds 'b'
    add('string size one long', t, string(b'a', delta=1))         # swallows the next byte
    add('string size max', t, i32(0x7fffffff) + [97, 0])
    add('string size min', t, i32(-2**31) + [97, 0])
    add('string size 2^24', t, i32(1 << 24) + [97, 0])
# 0x03 document / 0x04 array
INNER = [('empty', doc([])), ('one', doc([NULL_B])), ('idx0', doc([el(0x0a, [], b'0')])), ('idx1', doc([el(0x0a, [], b'1')])),
         ('idx01', doc([el(0x0a, [], b'0'), el(0x08, [1], b'1')])), ('idx00', doc([el(0x0a, [], b'0'), el(0x0a, [], b'0')])),
         ('idx02', doc([el(0x0a, [], b'0'), el(0x0a, [], b'2')])), ('idx 00', doc([el(0x0a, [], b'00')])),
         ('key empty', doc([el(0x0a, [], b'')])), ('key bad utf8', doc([el(0x0a, [], b'\x80')])), ('key c080', doc([el(0x0a, [], b'\xc0\x80')])),
         ('key e9', doc([el(0x0a, [], b'\xc3\xa9')])), ('dup', doc([NULL_B, el(0x10, i32(1), b'b')])),
         ('size+1', doc([NULL_B], delta=1)), ('size-1', doc([NULL_B], delta=-1)), ('size 4', i32(4)), ('size 0', i32(0) + [0]),
         ('size -1', i32(-1) + [0]), ('size 5 term 1', i32(5) + [1]), ('term 1', doc([NULL_B], term=1)),
         ('int', doc([el(0x10, i32(-1), b'0')])), ('str', doc([el(0x02, string(b'x'), b'0')])),
         ('nested doc', doc([el(0x03, doc([]), b'0')])), ('nested arr', doc([el(0x04, doc([]), b'0')])),
         ('minkey', doc([el(0xff, [], b'0')])), ('reserved', doc([el(0x14, [], b'0')])), ('bool 2', doc([el(0x08, [2], b'0')]))]
for lab, d in INNER:
    add('doc ' + lab, 0x03, d); add('arr ' + lab, 0x04, d)
# 0x05 binary
def binary(sub, data, delta=0): return i32(len(data) + delta) + [sub] + list(data)
for sub in (0, 1, 2, 3, 4, 5, 6, 7, 8, 9, 0x0a, 0x7f, 0x80, 0xff):
    add('binary empty', 0x05, binary(sub, []))
add('binary 1', 0x05, binary(0, [0xff])); add('binary 2 user', 0x05, binary(0x80, [0, 0xff]))
add('binary old ok', 0x05, binary(2, i32(1) + [7])); add('binary old empty inner', 0x05, binary(2, i32(0)))
add('binary old bad inner', 0x05, binary(2, i32(2) + [7])); add('binary old short', 0x05, binary(2, [1, 2]))
add('binary uuid', 0x05, binary(4, range(16))); add('binary uuid old', 0x05, binary(3, range(16))); add('binary md5', 0x05, binary(5, range(16)))
add('binary uuid short', 0x05, binary(4, [1])); add('binary size -1', 0x05, i32(-1) + [0]); add('binary size min', 0x05, i32(-2**31) + [0])
add('binary size one long', 0x05, binary(0, [1], delta=1)); add('binary size one short', 0x05, binary(0, [1, 0], delta=-1))
add('binary size max', 0x05, i32(0x7fffffff) + [0, 1]); add('binary size 2^24', 0x05, i32(1 << 24) + [0, 1])
add('binary no subtype', 0x05, i32(0))
# 0x06 undefined, 0x0a null, 0xff min key, 0x7f max key
for t in (0x06, 0x0a, 0xff, 0x7f): add('empty payload', t, [])
# 0x07 ObjectId
for bs in ([0] * 12, [0xff] * 12, [0x12, 0x34, 0x56, 0x78, 0x90, 0xab, 0xcd, 0xef, 0x12, 0x34, 0xab, 0xcd]): add('oid', 0x07, bs)
# 0x08 boolean
for x in (0, 1, 2, 0x7f, 0x80, 0xff): add('bool', 0x08, [x])
# 0x09 datetime, 0x12 int64, 0x11 timestamp
I64 = [0, 1, -1, 127, 128, 255, 256, 2**31 - 1, 2**31, 2**32 - 1, 2**32, -2**31, -2**31 - 1, -2**32, 2**53, 2**63 - 1, -2**63, -2**63 + 1]
for n in I64: add('int64', 0x12, i64(n))
for n in (0, 1, -1, 2**63 - 1, -2**63, 1000): add('datetime', 0x09, i64(n))
for n in (0, 1, 2**32, 2**63 - 1, 2**63, 2**64 - 1): add('timestamp', 0x11, i64(n))
# 0x10 int32
for n in (0, 1, -1, 127, 128, 255, 256, 65535, 65536, 2**24, 2**31 - 1, -2**31, -2**31 + 1, -128, -129, -256, -257, -65536): add('int32', 0x10, i32(n))
# 0x0b regex
for p, o in [(b'', b''), (b'a', b'i'), (b'^abcd', b'ilx'), (b'a', b'xi'), (b'a', b'q'), (b'a', b'ii'), (b'\x80', b''), (b'a', b'\xff'),
             (b'\xc0\x80', b''), (b'\xed\xa0\x80', b'i'), (b'\xc3\xa9', b'imsux'), (b'/', b'')]:
    add('regex', 0x0b, cstr(p) + cstr(o))
add('regex one cstring', 0x0b, cstr(b'a'))
# 0x0c DBPointer, 0x0f code with scope
add('dbpointer', 0x0c, string(b'a') + [7] * 12); add('dbpointer bad utf8', 0x0c, string(b'\x80') + [7] * 12)
add('dbpointer short', 0x0c, string(b'a') + [7] * 11); add('dbpointer empty', 0x0c, [])
def cws(code, scope, delta=0): return i32(4 + len(code) + len(scope) + delta) + code + scope
add('code_w_s', 0x0f, cws(string(b'a'), doc([]))); add('code_w_s', 0x0f, cws(string(b''), doc([NULL_B])))
add('code_w_s size+1', 0x0f, cws(string(b'a'), doc([]), 1)); add('code_w_s size-1', 0x0f, cws(string(b'a'), doc([]), -1))
add('code_w_s bad utf8', 0x0f, cws(string(b'\x80'), doc([]))); add('code_w_s bad scope', 0x0f, cws(string(b'a'), doc([], term=1)))
add('code_w_s empty', 0x0f, [])
# 0x13 decimal128
for lo, hi in [(0, 0), (1, 0), (0, 0x7c00000000000000), (0, 0x7800000000000000), (0, 0xf800000000000000), (2**64 - 1, 2**64 - 1), (1, 0x3040000000000000)]:
    add('decimal128', 0x13, i64(lo) + i64(hi))
# names: every class of cstring
NAMES = [b'', b'ab', b'0', b'\xc3\xa9', b'\xe2\x82\xac', b'\xf0\x9f\x98\x80', b'\x80', b'\xff', b'\xc0\x80', b'\xed\xa0\x80', b'\xed\xa0\x80\xed\xb0\x80',
         b'\xc3', b'\xf4\x90\x80\x80', b'\x01', b'\x7f', b'a.b', b'$a']
for nm in NAMES:
    add('name', 0x0a, [], nm); add('name', 0x10, i32(1), nm)
# every other type code: reserved / unassigned (no production in the grammar)
DEFINED = set(range(0x01, 0x14)) | {0x7f, 0xff}
for t in range(256):
    if t not in DEFINED and t != 0:
        add('reserved type', t, [])
for t in (0x14, 0x15, 0x20, 0x7e, 0x80, 0xfe):
    add('reserved type + payload', t, i32(1) + [0]); add('reserved type + 8', t, [0] * 8)
add('type 0 inside', 0x00, [])          # "\x00 a \x00": an early terminator followed by garbage

def uniq(xs):
    seen, out = set(), []
    for x in xs:
        k = tuple(x)
        if k not in seen:
            seen.add(k); out.append(list(x))
    return out

ELEMS = uniq(e for _, e in E)
# ---------------------------------------------------------------- later-position tokens
SMALL = [
    [0],                               # document terminator / payload byte 0
    el(0x0a, [], b'b'),                # 3 bytes: new key
    el(0x0a, [], b'a'),                # 3 bytes: duplicate of the opener's key
    el(0x0a, [], b'0'), el(0x0a, [], b'1'),   # array keys
    el(0x08, [1], b'b'),               # 4 bytes
    el(0x10, i32(-1), b'b'),           # 7 bytes
    el(0x02, string(b'a'), b'b'),      # 9 bytes
    el(0xff, [], b'b'),                # 3 bytes: min key
    [0x03, 0x62, 0x00], [0x04, 0x62, 0x00],   # container heads (3 bytes), contents follow
    i32(5) + [0],                      # an empty document / int32 5 + 0x00
    [0x61], [0x80], [0x01], [0xff],    # payload bytes
]
SMALL = uniq(SMALL)
# ---------------------------------------------------------------- openers
OPEN = []
for e in ELEMS:
    # d: bytes left between the opener and the terminator (reserved type codes: exact size only)
    for d in ((0, 3) if e[0] in DEFINED else (0,)):
        OPEN.append(i32(4 + len(e) + 1 + d) + e)
# the same elements as the first element "0" of an array {"a": [e]} (jsoncons decodes array elements on a separate path);
# the outer document is left open: the next token 0x00 closes it
for e in ELEMS:
    if e[0] in DEFINED and e[1:3] == [0x61, 0x00]:
        e0 = [e[0], 0x30, 0x00] + e[3:]
        inner = i32(4 + len(e0) + 1) + e0 + [0]
        OPEN.append(i32(4 + 3 + len(inner) + 1) + [0x04, 0x61, 0x00] + inner)
BASE = [el(0x0a, [], b'a'), el(0x10, i32(1), b'a'), el(0x02, string(b'a'), b'a'), el(0x03, doc([]), b'a'), el(0x04, doc([]), b'a'), el(0x08, [1], b'a')]
for e in BASE:
    for d in (-1, 1, 2, 4, 5, 7, 9, 8):
        OPEN.append(i32(4 + len(e) + 1 + d) + e)
# nested container left open: outer size, head, inner size; the small tokens fill the inner document
for t in (0x03, 0x04):
    for inner in (5, 8, 9):            # inner = 4 + content + 1
        for extra in (0, 3):
            OPEN.append(i32(4 + 3 + inner + 1 + extra) + [t, 0x61, 0x00] + i32(inner))
# bare size prefixes
for n in (0, 1, 4, 5, 6, 7, 8, 9, 11, 12, 14, 255, 256, 65536, 1 << 24, 2**31 - 1, -2**31, -1, -5):
    OPEN.append(i32(n))
OPEN.append(i32(5)[:3]); OPEN.append([5]); OPEN.append([0])
OPEN = uniq(OPEN)

# complete single-element documents
DOCS = uniq(i32(4 + len(e) + 1) + e + [0] for e in ELEMS if e[0] != 0 and (e[0] in DEFINED or e[0] in (0x14, 0x80)) and len(e) < 40)

# authoritative corpus: the two examples of bsonspec.org, the examples of /repo/doc/ref/bson/bson.md, and libbson's test
# documents that ship in /repo/test/bson/input (test1-39, 58: valid; test40-57, 59: corrupt according to libbson's test-bson.c)
CORPUS = [
    list(b'\x16\x00\x00\x00\x02hello\x00\x06\x00\x00\x00world\x00\x00'),
    list(b'\x31\x00\x00\x00\x04BSON\x00\x26\x00\x00\x00\x020\x00\x08\x00\x00\x00awesome\x00\x011\x00\x33\x33\x33\x33\x33\x33\x14\x40\x102\x00\xc2\x07\x00\x00\x00\x00'),
    list(bytes.fromhex('27000000' '0248656c6c6f00' '06000000576f726c6400' '054461746100' '0600000080666f6f626172' '00')),
    list(bytes.fromhex('180000001361000100000000000000000000000000000000')),
    list(bytes.fromhex('160000000b726567657800' '5e6162636400' '696c7800' '00')),
    list(bytes.fromhex('16000000076f696400' '1234567890abcdef1234abcd' '00')),
    list(bytes.fromhex('13000000057044000500000080' '48656c6c6f' '00')),
]
import glob
for f in sorted(glob.glob('/repo/test/bson/input/test*.bson'), key=lambda q: int(os.path.basename(q)[4:-5])):
    CORPUS.append(list(open(f, 'rb').read()))
CORPUS = uniq(CORPUS)

def tla(name, toks):
    return name + ' == {\n' + ',\n'.join('  <<%s>>' % ', '.join(map(str, t)) for t in toks) + '\n}\n'
out = '---------------------------- MODULE C07TokBson ----------------------------\n(* GENERATED by tools/gen_c07_tokens_bson.py -- do not edit by hand. *)\n'
out += tla('BsonTokens', OPEN) + tla('BsonSmallTokens', SMALL) + tla('BsonSampleDocs', DOCS) + tla('BsonCorpusDocs', CORPUS)
out += '=============================================================================\n'
open(os.path.join(os.path.dirname(os.path.abspath(__file__)), '..', 'spec', 'gen', 'C07TokBson.tla'), 'w').write(out)
print('corpus', len(CORPUS), 'elements', len(ELEMS), 'openers', len(OPEN), 'small', len(SMALL), 'docs', len(DOCS), 'doc bytes', sum(len(d) for d in DOCS))
